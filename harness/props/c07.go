package props

import (
	sdkmath "cosmossdk.io/math"
	"encoding/binary"
	"fmt"
	clienttx "github.com/cosmos/cosmos-sdk/client/tx"
	codectypes "github.com/cosmos/cosmos-sdk/codec/types"
	"github.com/cosmos/cosmos-sdk/types/tx/signing"
	authsigning "github.com/cosmos/cosmos-sdk/x/auth/signing"
	authtx "github.com/cosmos/cosmos-sdk/x/auth/tx"
	banktypes "github.com/cosmos/cosmos-sdk/x/bank/types"
	haqqtypes "github.com/haqq-network/haqq/types"
	"math/big"
	"math/rand"
	"strings"

	abci "github.com/cometbft/cometbft/abci/types"
	sdk "github.com/cosmos/cosmos-sdk/types"
	authtypes "github.com/cosmos/cosmos-sdk/x/auth/types"
	"github.com/ethereum/go-ethereum/common"
	ethtypes "github.com/ethereum/go-ethereum/core/types"
	"github.com/ethereum/go-ethereum/crypto"

	cosmosante "github.com/haqq-network/haqq/app/ante/cosmos"
	evmante "github.com/haqq-network/haqq/app/ante/evm"
	testtx "github.com/haqq-network/haqq/testutil/tx"
	evmkeeper "github.com/haqq-network/haqq/x/evm/keeper"
	evmtypes "github.com/haqq-network/haqq/x/evm/types"
)

// C07 — fee floor and exact gas charging. Ops (shared with lean/HaqqModel/Driver/C07.lean):
//
//	cfloor minGPraw gas fee | efloor minGPraw typ gas gasPrice tip cap base | vfee typ gas gasPrice tip cap base
//	deploy | gas <limit> <raw> <multRaw> <price> # kind=transfer|set|clear|revert|oog pricing=legacy|dynamic limit=<n>
//
// For `gas` the executor runs a real signed Ethereum tx through DeliverTx; `raw` (EVM gas after refunds) is measured
// by applying the same message on a cache context with the multiplier set to 0, `price` is the effective price.
func init() {
	Register(&Property{
		ID:   "C07",
		Gen:  c07Gen,
		Exec: c07Exec,
		NonTrivial: func(tags []string) bool {
			return hasTag(tags, "etx-ok")
		},
		Rule: "real signed Ethereum transactions through DeliverTx (plain transfer, storage set, storage clear with refund, revert, out of gas; legacy and dynamic-fee pricing; gas limits from tight to generous; minGasMultiplier in {0, 0.5, 1, random}) with sender / fee-collector deltas measured, plus the real MinGasPriceDecorator, EthMinGasPriceDecorator and VerifyFee on boundary (gas, price, cap, tip, base fee, min gas price) tuples; non-trivial = an Ethereum tx executed; distinct = distinct op sequences",
	})
}

type c07FeeTx struct {
	gas uint64
	fee sdk.Coins
}

func (t c07FeeTx) GetMsgs() []sdk.Msg         { return nil }
func (t c07FeeTx) ValidateBasic() error       { return nil }
func (t c07FeeTx) GetGas() uint64             { return t.gas }
func (t c07FeeTx) GetFee() sdk.Coins          { return t.fee }
func (t c07FeeTx) FeePayer() sdk.AccAddress   { return nil }
func (t c07FeeTx) FeeGranter() sdk.AccAddress { return nil }

type c07MsgTx struct{ msgs []sdk.Msg }

func (t c07MsgTx) GetMsgs() []sdk.Msg   { return t.msgs }
func (t c07MsgTx) ValidateBasic() error { return nil }

func c07Gen(r *rand.Rand, tier string) []Case {
	n := 25
	if tier == "thorough" {
		n = 400
	}
	var out []Case
	// fixed case: prices at the machine-word boundary (tip and cap below 2^64, tip + base fee above), charged for real and
	// through the floor / fee checks
	out = append(out, Case{"deploy",
		"gas ? ? 0 ? # kind=transfer pricing=dynamic-word limit=21000", "gas ? ? 0 ? # kind=set pricing=dynamic-word limit=100000",
		"gas ? ? 500000000000000000 ? # kind=clear pricing=dynamic-word limit=60000", "gas ? ? 0 ? # kind=revert pricing=dynamic-word limit=50000",
		"gas ? ? 0 ? # kind=set pricing=dynamic limit=100000 market=notyet", "gas ? ? 0 ? # kind=transfer pricing=dynamic limit=50000 market=notyet",
		"gas ? ? 500000000000000000 ? # kind=clear pricing=dynamic limit=90000 market=notyet", "gas ? ? 0 ? # kind=set pricing=legacy limit=100000 market=notyet",
		"vfee 2 21000 0 18446744073709551615 18446744073709551615 1000000000", "vfee 2 21000 0 18446744073709551000 18446744073709551615 875000000",
		"efloor 1000000000000000000 2 21000 0 18446744073709551615 18446744073709551615 1000000000",
		"efloor 20000000000000000000000000000000000000 2 21000 0 18446744073709551615 18446744073709551615 1000000000"})
	// fixed case: Cosmos transactions charged for real — plain, and with the dynamic-fee option (tip 0 and tip large),
	// with the fee market in force and switched off, the declared fee exactly at the floor
	out = append(out, Case{"cpay 1000000000000000000000000000 200000 200000000000000 # ext=0", "cpay 1000000000000000000000000000 200000 200000000000000 # ext=1 tip=0",
		"cpay 1000000000000000000000000000 200000 200000000000000 # ext=1 tip=0 market=nobasefee", "cpay 1000000000000000000000000000 200000 200000000000000 # ext=1 tip=1000000000 market=nobasefee",
		"cpay 2000000000000000000000000000 200000 400000000000000 # ext=1 tip=5",
		"cpay 1000000000000000000000000000 200000 200000000000000 # ext=1 tip=0 tip2=9000000000", "cpay 1000000000000000000000000000 200000 200000000000000 # ext=1 tip=9000000000 tip2=0",
		// a fractional minimum gas price and a declared fee that is not a multiple of the gas limit
		"cpay 2000000000500000000000000000 100000 200000000050000 # ext=0", "cpay 2000000000500000000000000000 100000 200000000050000 # ext=1 tip=9000000000",
		"cpay 2000000000500000000000000000 100000 200000000100000 # ext=0", "cpay 2000000000500000000000000000 100001 200002000050001 # ext=0"})
	for i := 0; i < n; i++ {
		c := Case{"deploy"}
		mults := []string{"0", "500000000000000000", "1000000000000000000", fmt.Sprint(r.Int63n(1_000_000_000_000_000_000))}
		kinds := []string{"transfer", "set", "clear", "clear", "revert", "oog", "set", "clear"}
		for j := 0; j < 6+r.Intn(6); j++ {
			kind := pick(r, kinds)
			limit := pick(r, []int{21000, 30000, 50000, 100000, 1000000, 25000 + r.Intn(100000)})
			if kind == "oog" {
				limit = 21000 + r.Intn(2500)
			}
			mk := ""
			if r.Intn(5) == 0 {
				mk = " market=notyet"
			}
			c = append(c, fmt.Sprintf("gas ? ? %s ? # kind=%s pricing=%s limit=%d%s", pick(r, mults), kind, pick(r, []string{"legacy", "dynamic", "dynamic-capped", "legacy", "dynamic", "dynamic-capped", "dynamic-word"}), limit, mk))
		}
		// Cosmos transactions charged for real: declared fee around the floor, with and without the dynamic-fee option
		for j := 0; j < 3; j++ {
			mgp := pick(r, []int64{1_000_000_000, 2_000_000_000, 500_000_000, 0})
			gas := pick(r, []int64{200_000, 150_000, 300_000})
			floor := mgp * gas
			fee := floor + pick(r, []int64{0, 0, 1, -1, 1000, int64(r.Intn(1_000_000_000))})
			if fee < 0 {
				fee = 0
			}
			ann := "ext=0"
			if r.Intn(3) > 0 {
				ann = fmt.Sprintf("ext=1 tip=%d", pick(r, []int64{0, 1, 1_000_000_000, 5_000_000_000, int64(r.Intn(2_000_000_000))}))
			}
			if r.Intn(3) == 0 {
				ann += " market=nobasefee"
			}
			c = append(c, fmt.Sprintf("cpay %d000000000000000000 %d %d # %s", mgp, gas, fee, ann))
		}
		// decorator-level boundary tuples
		for j := 0; j < 12; j++ {
			mg := pick(r, []*big.Int{big.NewInt(0), e18, new(big.Int).Mul(big.NewInt(25), new(big.Int).Exp(big.NewInt(10), big.NewInt(17), nil)), big.NewInt(1), new(big.Int).Rand(r, new(big.Int).Mul(big.NewInt(1000), e18))})
			gas := pick(r, []uint64{0, 1, 21000, 100000, uint64(r.Intn(10_000_000))})
			req := new(big.Int).Mul(mg, new(big.Int).SetUint64(gas))
			ceil := new(big.Int).Add(req, new(big.Int).Sub(e18, big.NewInt(1)))
			ceil.Quo(ceil, e18)
			fee := pick(r, []*big.Int{new(big.Int).Set(ceil), new(big.Int).Sub(ceil, big.NewInt(1)), new(big.Int).Add(ceil, big.NewInt(1)), big.NewInt(0), randBig(r)})
			if fee.Sign() < 0 {
				fee = big.NewInt(0)
			}
			c = append(c, fmt.Sprintf("cfloor %s %d %s", mg, gas, fee))
			typ := r.Intn(3)
			base := pick(r, []*big.Int{big.NewInt(0), big.NewInt(1_000_000_000), big.NewInt(int64(r.Intn(1000)))})
			price := new(big.Int).Quo(new(big.Int).Add(req, new(big.Int).Sub(e18, big.NewInt(1))), e18)
			if gas > 0 {
				price.Quo(price, new(big.Int).SetUint64(gas))
			}
			gp := new(big.Int).Add(price, big.NewInt(int64(r.Intn(3)-1)))
			if gp.Sign() < 0 {
				gp = big.NewInt(0)
			}
			tip := big.NewInt(int64(r.Intn(10)))
			cap := new(big.Int).Add(gp, big.NewInt(int64(r.Intn(3))))
			if typ == 2 {
				gp = big.NewInt(0)
			} else {
				tip, cap = big.NewInt(0), big.NewInt(0)
			}
			c = append(c, fmt.Sprintf("efloor %s %d %d %s %s %s %s", mg, typ, gas, gp, tip, cap, base))
			if typ == 2 && r.Intn(2) == 0 {
				// the fee market not in force (switched off, or not yet enabled): the EVM's base fee is then 0, and what a
				// dynamic-fee transaction pays is min(tip, cap) — the floor is about that, not about the cap
				capHi := new(big.Int).Add(price, big.NewInt(int64(5+r.Intn(100))))
				tipLo := new(big.Int).Sub(price, big.NewInt(int64(1+r.Intn(3))))
				if tipLo.Sign() < 0 {
					tipLo = big.NewInt(0)
				}
				c = append(c, fmt.Sprintf("efloor %s 2 %d 0 %s %s 0 # market=%s", mg, gas, pick(r, []*big.Int{tipLo, tip, price}), capHi, pick(r, []string{"nobasefee", "notyet"})))
			}
			if r.Intn(2) == 0 && gas > 0 {
				// two messages in one transaction: the second over-pays by what the first is short of (or one more / one less)
				short := big.NewInt(int64(1 + r.Intn(5)))
				gpA := new(big.Int).Sub(price, short)
				if gpA.Sign() < 0 {
					gpA = big.NewInt(0)
				}
				gpB := new(big.Int).Add(price, new(big.Int).Add(short, big.NewInt(int64(r.Intn(3)))))
				c = append(c, fmt.Sprintf("efloor2 %s %s 0 %d %s 0 0 0 %d %s 0 0", mg, base, gas, gpA, gas, gpB))
				c = append(c, fmt.Sprintf("efloor2 %s %s 0 %d %s 0 0 1 %d %s 0 0", mg, base, gas, gpB, gas, gpB))
			}
			b2 := pick(r, []*big.Int{base, new(big.Int).Add(cap, big.NewInt(1)), new(big.Int).Add(gp, big.NewInt(1)), cap, gp})
			c = append(c, fmt.Sprintf("vfee %d %d %s %s %s %s", typ, gas, gp, tip, cap, b2))
		}
		out = append(out, c)
	}
	return out
}

func c07InitCode(rt []byte) []byte {
	hdr := []byte{0x61, byte(len(rt) >> 8), byte(len(rt)), 0x80, 0x61, 0, 0, 0x60, 0, 0x39, 0x60, 0, 0xf3}
	binary.BigEndian.PutUint16(hdr[5:], uint16(len(hdr)))
	return append(hdr, rt...)
}

var (
	c07Store  common.Address // empty calldata clears slot 0 (refund), non-empty sets it
	c07Revert common.Address
	c07Ready  bool
)

// c07Send signs and delivers an Ethereum tx; returns the DeliverTx response, the signed go-ethereum tx and the message.
func c07Send(keyIdx int, args evmtypes.EvmTxArgs) (abci.ResponseDeliverTx, *ethtypes.Transaction, *evmtypes.MsgEthereumTx) {
	nw, kr := fixture()
	key := kr.GetKey(keyIdx)
	ctx := nw.GetContext()
	args.ChainID = nw.GetEIP155ChainID()
	args.Nonce = nw.App.EvmKeeper.GetNonce(ctx, key.Addr)
	msg := evmtypes.NewTx(&args)
	msg.From = key.Addr.String()
	signer := ethtypes.LatestSignerForChainID(nw.GetEIP155ChainID())
	if err := msg.Sign(signer, testtx.NewSigner(key.Priv)); err != nil {
		panic(err)
	}
	txCfg := nw.App.GetTxConfig()
	built, err := msg.BuildTx(txCfg.NewTxBuilder(), nw.GetDenom())
	if err != nil {
		panic(err)
	}
	bz, err := txCfg.TxEncoder()(built)
	if err != nil {
		panic(err)
	}
	res := nw.App.BaseApp.DeliverTx(abci.RequestDeliverTx{Tx: bz})
	return res, msg.AsTransaction(), msg
}

func c07Exec(c Case) (outs []string, fails []Failure, tags []string) {
	nw, kr := fixture()
	app := nw.App
	for i, line := range c {
		f := strings.Fields(line)
		out := "bad-op"
		func() {
			defer func() {
				if r := recover(); r != nil {
					out = "panic:" + strings.ReplaceAll(fmt.Sprint(r), " ", "_")
				}
			}()
			fl := func(sig, what string) { fails = append(fails, Failure{Signature: sig, What: what, Case: c[i : i+1]}) }
			switch f[0] {
			case "deploy":
				out = "ok"
				if c07Ready {
					return
				}
				ctx := nw.GetContext()
				p := app.FeeMarketKeeper.GetParams(ctx)
				p.MinGasMultiplier = sdk.ZeroDec()
				_ = app.FeeMarketKeeper.SetParams(ctx, p)
				from := kr.GetKey(0).Addr
				rt := []byte{0x36, 0x15, 0x60, 0x0b, 0x57, 0x60, 0x01, 0x60, 0x00, 0x55, 0x00, 0x5b, 0x60, 0x00, 0x60, 0x00, 0x55, 0x00}
				n0 := app.EvmKeeper.GetNonce(ctx, from)
				r1, _, _ := c07Send(0, evmtypes.EvmTxArgs{Input: c07InitCode(rt), GasLimit: 300000, GasPrice: big.NewInt(2_000_000_000)})
				r2, _, _ := c07Send(0, evmtypes.EvmTxArgs{Input: c07InitCode([]byte{0x60, 0x00, 0x60, 0x00, 0xfd}), GasLimit: 300000, GasPrice: big.NewInt(2_000_000_000)})
				if r1.Code != 0 || r2.Code != 0 {
					panic("deploy failed: " + r1.Log + r2.Log)
				}
				c07Store = crypto.CreateAddress(from, n0)
				c07Revert = crypto.CreateAddress(from, n0+1)
				if err := nw.NextBlock(); err != nil {
					panic(err)
				}
				c07Ready = true
			case "gas", "gasfail":
				kv := vmKV(f)
				if f[0] == "gasfail" { // replay of a rewritten line: restore the generator's shape
					f = append([]string{"gas", "?", "?", kv["mult"], "?"}, f[3:]...)
				}
				ctx := nw.GetContext()
				limit := uint64(vmIdx(kv["limit"]))
				mult := sdk.NewDecFromBigIntWithPrec(mustBig(f[3]), 18)
				base := app.FeeMarketKeeper.GetBaseFee(ctx)
				args := evmtypes.EvmTxArgs{GasLimit: limit}
				value := big.NewInt(0)
				sender := 1 + i%3
				switch kv["kind"] {
				case "transfer":
					to := common.BytesToAddress(testAddr(300))
					args.To, args.Amount = &to, big.NewInt(1)
					value = big.NewInt(1)
				case "set":
					args.To, args.Input = &c07Store, []byte{1}
				case "clear", "oog":
					// make sure the slot is set so that clearing earns a refund
					if kv["kind"] == "clear" {
						p := app.FeeMarketKeeper.GetParams(ctx)
						p.MinGasMultiplier = sdk.ZeroDec()
						_ = app.FeeMarketKeeper.SetParams(ctx, p)
						c07Send(0, evmtypes.EvmTxArgs{To: &c07Store, Input: []byte{1}, GasLimit: 100000, GasPrice: new(big.Int).Mul(base, big.NewInt(2))})
					}
					args.To = &c07Store
					if kv["kind"] == "oog" {
						args.Input = []byte{1}
					}
				case "revert":
					args.To = &c07Revert
				}
				var price *big.Int
				switch kv["pricing"] {
				case "legacy":
					args.GasPrice = new(big.Int).Add(base, big.NewInt(int64(1+i%5)))
					price = args.GasPrice
				case "dynamic":
					args.GasTipCap = big.NewInt(int64(1 + i%7))
					args.GasFeeCap = new(big.Int).Mul(base, big.NewInt(3))
					price = new(big.Int).Add(base, args.GasTipCap)
				case "dynamic-word":
					// tip and cap just below 2^64, each fits a machine word, tip + base does not: the cap binds
					w := new(big.Int).Sub(new(big.Int).Lsh(big.NewInt(1), 64), big.NewInt(int64(1+i%3)))
					args.GasTipCap, args.GasFeeCap = w, new(big.Int).Set(w)
					price = new(big.Int).Set(w)
					// the sender must be able to pay gasLimit × cap
					need := new(big.Int).Mul(new(big.Int).SetUint64(limit), new(big.Int).Mul(w, big.NewInt(2)))
					if have := app.BankKeeper.GetBalance(ctx, kr.GetKey(sender).AccAddr, nw.GetDenom()).Amount.BigInt(); have.Cmp(need) < 0 {
						coins := sdk.NewCoins(sdk.NewCoin(nw.GetDenom(), sdkmath.NewIntFromBigInt(need)))
						if err := app.BankKeeper.MintCoins(ctx, "coinomics", coins); err != nil {
							panic(err)
						}
						if err := app.BankKeeper.SendCoinsFromModuleToAccount(ctx, "coinomics", kr.GetKey(sender).AccAddr, coins); err != nil {
							panic(err)
						}
					}
					tags = append(tags, "price-at-word-boundary")
				default: // tip larger than cap − base: the cap binds
					args.GasFeeCap = new(big.Int).Add(base, big.NewInt(2))
					args.GasTipCap = big.NewInt(1000)
					price = new(big.Int).Set(args.GasFeeCap)
				}
				p := app.FeeMarketKeeper.GetParams(ctx)
				p.MinGasMultiplier = mult
				if kv["market"] == "notyet" {
					// the fee market is scheduled but not yet in force (EnableHeight ahead): the ante handler and the
					// execution must still agree on one price
					p.EnableHeight = ctx.BlockHeight() + 1_000
					tags = append(tags, "fee-market-not-yet-enabled")
					defer func() {
						q := app.FeeMarketKeeper.GetParams(nw.GetContext())
						q.EnableHeight = 0
						_ = app.FeeMarketKeeper.SetParams(nw.GetContext(), q)
					}()
				}
				_ = app.FeeMarketKeeper.SetParams(ctx, p)
				key := kr.GetKey(sender)
				// ---- measure the raw EVM consumption (after refunds) on a branch with the multiplier at 0 ----
				cctx, _ := ctx.CacheContext()
				cctx = cctx.WithGasMeter(sdk.NewInfiniteGasMeter())
				p0 := p
				p0.MinGasMultiplier = sdk.ZeroDec()
				_ = app.FeeMarketKeeper.SetParams(cctx, p0)
				probe := args
				probe.ChainID = nw.GetEIP155ChainID()
				probe.Nonce = app.EvmKeeper.GetNonce(ctx, key.Addr)
				pm := evmtypes.NewTx(&probe)
				pm.From = key.Addr.String()
				signer := ethtypes.LatestSignerForChainID(nw.GetEIP155ChainID())
				if err := pm.Sign(signer, testtx.NewSigner(key.Priv)); err != nil {
					panic(err)
				}
				coreMsg, err := pm.AsTransaction().AsMessage(signer, base)
				if err != nil {
					panic(err)
				}
				rawRes, err := app.EvmKeeper.ApplyMessage(cctx, coreMsg, nil, true)
				if err != nil {
					// the message cannot even start (e.g. gas limit below the intrinsic gas): the tx fails as a whole, the
					// up-front deduction stays with the fee collector, nothing is refunded
					collector := authtypes.NewModuleAddress(authtypes.FeeCollectorName)
					bal := func(a sdk.AccAddress) *big.Int {
						return app.BankKeeper.GetBalance(nw.GetContext(), a, nw.GetDenom()).Amount.BigInt()
					}
					s0, c0 := bal(key.AccAddr), bal(collector)
					res, _, _ := c07Send(sender, args)
					s1, c1 := bal(key.AccAddr), bal(collector)
					rest := append([]string{}, f[5:]...)
					c[i] = strings.Join(append([]string{"gasfail", fmt.Sprint(limit), price.String()}, append(rest, "mult="+f[3])...), " ")
					pay, got := new(big.Int).Sub(s0, s1), new(big.Int).Sub(c1, c0)
					out = fmt.Sprintf("used=%d pay=%s refund=0", limit, pay)
					exp := new(big.Int).Mul(new(big.Int).SetUint64(limit), price)
					tags = append(tags, "tx-failed")
					if res.Code == 0 {
						fl("C07:unstartable-message-executed", "a message whose probe failed ("+err.Error()+") was executed")
					}
					if pay.Cmp(exp) != 0 || got.Cmp(exp) != 0 {
						fl("C07:failed-tx-charge", fmt.Sprintf("failed tx: sender paid %s, collector gained %s, gasLimit×price = %s", pay, got, exp))
					}
					return
				}
				raw := rawRes.GasUsed
				// ---- the real run ----
				collector := authtypes.NewModuleAddress(authtypes.FeeCollectorName)
				bal := func(a sdk.AccAddress) *big.Int {
					return app.BankKeeper.GetBalance(nw.GetContext(), a, nw.GetDenom()).Amount.BigInt()
				}
				s0, c0 := bal(key.AccAddr), bal(collector)
				res, _, _ := c07Send(sender, args)
				s1, c1 := bal(key.AccAddr), bal(collector)
				f[1], f[2], f[4] = fmt.Sprint(limit), fmt.Sprint(raw), price.String()
				c[i] = strings.Join(f, " ")
				if res.Code != 0 {
					out = "err:deliver:" + strings.ReplaceAll(res.Log, " ", "_")
					return
				}
				txr, err := evmtypes.DecodeTxResponse(res.Data)
				if err != nil {
					panic(err)
				}
				used := txr.GasUsed
				pay := new(big.Int).Sub(s0, s1)
				if !txr.Failed() {
					pay.Sub(pay, value)
				}
				got := new(big.Int).Sub(c1, c0)
				refund := new(big.Int).Mul(new(big.Int).SetUint64(limit-used), price)
				out = fmt.Sprintf("used=%d pay=%s refund=%s", used, pay, refund)
				tags = append(tags, "etx-ok", "kind-"+kv["kind"])
				if txr.Failed() {
					tags = append(tags, "vm-failed")
				}
				// ---- monitors ----
				floor := new(big.Int).Mul(new(big.Int).SetUint64(limit), mustBig(f[3]))
				floor.Quo(floor, e18)
				want := new(big.Int).SetUint64(raw)
				if floor.Cmp(want) > 0 {
					want = floor
					tags = append(tags, "floor-binds")
				}
				if used > limit {
					fl("C07:gasused-above-limit", fmt.Sprintf("gasUsed %d > gas limit %d", used, limit))
				}
				if new(big.Int).SetUint64(used).Cmp(want) != 0 {
					sig := "C07:gasused-ne-max"
					if new(big.Int).SetUint64(used).Cmp(floor) < 0 {
						sig = "C07:gasused-below-floor"
					}
					fl(sig, fmt.Sprintf("%s tx: gasUsed %d, max(⌊multiplier·limit⌋=%s, consumed after refunds=%d) = %s", kv["kind"], used, floor, raw, want))
				}
				exp := new(big.Int).Mul(new(big.Int).SetUint64(used), price)
				if pay.Cmp(exp) != 0 {
					fl("C07:sender-payment", fmt.Sprintf("sender paid %s for gas, gasUsed×effectivePrice = %d×%s = %s", pay, used, price, exp))
				}
				if got.Cmp(exp) != 0 {
					fl("C07:collector-gain", fmt.Sprintf("fee collector gained %s, gasUsed×effectivePrice = %s", got, exp))
				}
			case "cfloor":
				ctx, _ := nw.GetContext().CacheContext()
				p := app.FeeMarketKeeper.GetParams(ctx)
				p.MinGasPrice = sdk.NewDecFromBigIntWithPrec(mustBig(f[1]), 18)
				_ = app.FeeMarketKeeper.SetParams(ctx, p)
				var gas uint64
				fmt.Sscan(f[2], &gas)
				var fee sdk.Coins
				if a := mustBig(f[3]); a.Sign() > 0 {
					fee = sdk.NewCoins(sdk.NewCoin(nw.GetDenom(), sdk.NewIntFromBigInt(a)))
				}
				dec := cosmosante.NewMinGasPriceDecorator(app.FeeMarketKeeper, app.EvmKeeper)
				// the op line for the model carries the base fee the decorator sees (it bounds what would be charged)
				if bf := app.EvmKeeper.GetBaseFee(ctx, app.EvmKeeper.GetParams(ctx).ChainConfig.EthereumConfig(app.EvmKeeper.ChainID())); bf != nil && len(f) == 4 {
					c[i] = strings.Join(append(f[:4:4], bf.String()), " ")
				}
				_, err := dec.AnteHandle(ctx.WithIsCheckTx(false), c07FeeTx{gas: gas, fee: fee}, false, func(ctx sdk.Context, _ sdk.Tx, _ bool) (sdk.Context, error) { return ctx, nil })
				out = "accept"
				if err != nil {
					out = "reject"
				}
				need := new(big.Int).Mul(mustBig(f[1]), new(big.Int).SetUint64(gas))
				if err == nil && new(big.Int).Mul(mustBig(f[3]), e18).Cmp(need) < 0 {
					fl("C07:cosmos-floor", fmt.Sprintf("fee %s accepted below minGasPrice×gas = %s/1e18", f[3], need))
				}
			case "cpay":
				// a real Cosmos transaction (bank send), signed in direct mode, optionally carrying the dynamic-fee extension
				// option with a given tip; delivered; what the sender actually paid is measured.
				//   cpay <minGPraw> <gas> <declared fee> # ext=0|1 tip=<n> market=on|nobasefee
				// The floor is about what is charged, not what is declared.
				out = "skip"
				kv := vmKV(f)
				ctx := nw.GetContext()
				p0 := app.FeeMarketKeeper.GetParams(ctx)
				p := p0
				p.MinGasPrice = sdk.NewDecFromBigIntWithPrec(mustBig(f[1]), 18)
				if kv["market"] == "nobasefee" {
					p.NoBaseFee = true
				}
				_ = app.FeeMarketKeeper.SetParams(ctx, p)
				defer func() { _ = app.FeeMarketKeeper.SetParams(nw.GetContext(), p0) }()
				var gas uint64
				fmt.Sscan(f[2], &gas)
				key := kr.GetKey(1 + i%3)
				txCfg := app.GetTxConfig()
				b := txCfg.NewTxBuilder()
				_ = b.SetMsgs(banktypes.NewMsgSend(key.AccAddr, kr.GetKey(4).AccAddr, sdk.NewCoins(sdk.NewCoin(nw.GetDenom(), sdkmath.NewInt(3)))))
				b.SetGasLimit(gas)
				fee := sdk.NewCoins()
				if a := mustBig(f[3]); a.Sign() > 0 {
					fee = sdk.NewCoins(sdk.NewCoin(nw.GetDenom(), sdkmath.NewIntFromBigInt(a)))
				}
				b.SetFeeAmount(fee)
				if kv["ext"] == "1" {
					opt, e := codectypes.NewAnyWithValue(&haqqtypes.ExtensionOptionDynamicFeeTx{MaxPriorityPrice: sdkmath.NewIntFromBigInt(mustBig(kv["tip"]))})
					if e != nil {
						panic(e)
					}
					opts := []*codectypes.Any{opt}
					if kv["tip2"] != "" {
						// the option a second time, with another tip (valid input: every such option is admitted; the first counts)
						opt2, e := codectypes.NewAnyWithValue(&haqqtypes.ExtensionOptionDynamicFeeTx{MaxPriorityPrice: sdkmath.NewIntFromBigInt(mustBig(kv["tip2"]))})
						if e != nil {
							panic(e)
						}
						opts = append(opts, opt2)
						tags = append(tags, "dynamic-fee-option-twice")
					}
					b.(authtx.ExtensionOptionsTxBuilder).SetExtensionOptions(opts...)
					tags = append(tags, "cosmos-tx-with-dynamic-fee-option")
				}
				acc := app.AccountKeeper.GetAccount(ctx, key.AccAddr)
				seq := acc.GetSequence()
				_ = b.SetSignatures(signing.SignatureV2{PubKey: key.Priv.PubKey(), Data: &signing.SingleSignatureData{SignMode: signing.SignMode_SIGN_MODE_DIRECT}, Sequence: seq})
				sig, e := clienttx.SignWithPrivKey(signing.SignMode_SIGN_MODE_DIRECT, authsigning.SignerData{ChainID: ctx.ChainID(), AccountNumber: acc.GetAccountNumber(), Sequence: seq}, b, key.Priv, txCfg, seq)
				if e != nil {
					panic(e)
				}
				_ = b.SetSignatures(sig)
				bz, e := txCfg.TxEncoder()(b.GetTx())
				if e != nil {
					panic(e)
				}
				bal := func() *big.Int {
					return app.BankKeeper.GetBalance(nw.GetContext(), key.AccAddr, nw.GetDenom()).Amount.BigInt()
				}
				b0 := bal()
				// the op line for the model: cpay <minGPraw> <gas> <fee> <base fee the checker sees | nil> <tip | ->
				evmP := app.EvmKeeper.GetParams(ctx)
				baseS := "nil"
				if bf := app.EvmKeeper.GetBaseFee(ctx, evmP.ChainConfig.EthereumConfig(app.EvmKeeper.ChainID())); bf != nil {
					baseS = bf.String()
				}
				tipS := "-"
				if kv["ext"] == "1" {
					tipS = kv["tip"]
				}
				var ann []string
				for j, t := range f {
					if t == "#" {
						ann = f[j:]
						break
					}
				}
				c[i] = strings.Join(append([]string{"cpay", f[1], f[2], f[3], baseS, tipS}, ann...), " ")
				res := app.BaseApp.DeliverTx(abci.RequestDeliverTx{Tx: bz})
				paid := new(big.Int).Sub(b0, bal())
				out = "accept"
				if res.Code != 0 {
					out = "reject"
					tags = append(tags, "cosmos-tx-refused")
					return
				}
				paid.Sub(paid, big.NewInt(3)) // the amount sent
				tags = append(tags, "cosmos-tx-executed")
				need := new(big.Int).Mul(mustBig(f[1]), new(big.Int).SetUint64(gas))
				if new(big.Int).Mul(paid, e18).Cmp(need) < 0 {
					fl("C07:cosmos-floor:charged-below-the-floor", fmt.Sprintf("a Cosmos transaction (gas %d, declared fee %s, dynamic-fee option %s tip %s) was executed and its sender paid %s, below minGasPrice × gas = %s/1e18", gas, f[3], kv["ext"], kv["tip"], paid, need))
				}
			case "efloor2":
				// efloor2 minGPraw base  typ gas gp tip cap  typ gas gp tip cap — one transaction, two Ethereum messages
				base := mustBig(f[2])
				var msgs []sdk.Msg
				var offered, needed []*big.Int
				for m := 0; m < 2; m++ {
					o := 3 + 5*m
					typ := vmIdx(f[o])
					var gas uint64
					fmt.Sscan(f[o+1], &gas)
					gp, tip, cap := mustBig(f[o+2]), mustBig(f[o+3]), mustBig(f[o+4])
					to := common.BytesToAddress(testAddr(301))
					args := evmtypes.EvmTxArgs{ChainID: big.NewInt(11235), Nonce: uint64(1 + m), To: &to, Amount: big.NewInt(0), GasLimit: gas}
					price := gp
					switch typ {
					case 0:
						args.GasPrice = gp
					case 1:
						args.GasPrice = gp
						args.Accesses = &ethtypes.AccessList{}
					default:
						args.GasTipCap, args.GasFeeCap = tip, cap
						price = new(big.Int).Add(tip, base)
						if cap.Cmp(price) < 0 {
							price = cap
						}
					}
					msgs = append(msgs, evmtypes.NewTx(&args))
					offered = append(offered, new(big.Int).Mul(new(big.Int).Mul(price, new(big.Int).SetUint64(gas)), new(big.Int).Exp(big.NewInt(10), big.NewInt(18), nil)))
					needed = append(needed, new(big.Int).Mul(mustBig(f[1]), new(big.Int).SetUint64(gas)))
				}
				ctx, _ := nw.GetContext().CacheContext()
				p := app.FeeMarketKeeper.GetParams(ctx)
				p.MinGasPrice = sdk.NewDecFromBigIntWithPrec(mustBig(f[1]), 18)
				p.BaseFee = sdk.NewIntFromBigInt(base)
				_ = app.FeeMarketKeeper.SetParams(ctx, p)
				dec := evmante.NewEthMinGasPriceDecorator(app.FeeMarketKeeper, app.EvmKeeper)
				_, err := dec.AnteHandle(ctx.WithIsCheckTx(false), c07MsgTx{msgs}, false, func(ctx sdk.Context, _ sdk.Tx, _ bool) (sdk.Context, error) { return ctx, nil })
				out = "accept"
				tags = append(tags, "efloor-two-messages")
				if err != nil {
					out = "reject"
				} else {
					for m := range msgs {
						if offered[m].Cmp(needed[m]) < 0 {
							fl("C07:eth-floor:message-carried-by-another", fmt.Sprintf("a transaction of two Ethereum messages was accepted although message %d offers less than its gas limit × the minimum gas price %s/1e18", m, f[1]))
						}
					}
				}
			case "efloor", "vfee":
				off := 0
				if f[0] == "efloor" {
					off = 1
				}
				typ := vmIdx(f[1+off])
				var gas uint64
				fmt.Sscan(f[2+off], &gas)
				gp, tip, cap, base := mustBig(f[3+off]), mustBig(f[4+off]), mustBig(f[5+off]), mustBig(f[6+off])
				to := common.BytesToAddress(testAddr(301))
				args := evmtypes.EvmTxArgs{ChainID: big.NewInt(11235), Nonce: 1, To: &to, Amount: big.NewInt(0), GasLimit: gas}
				switch typ {
				case 0:
					args.GasPrice = gp
				case 1:
					args.GasPrice = gp
					args.Accesses = &ethtypes.AccessList{}
				default:
					args.GasTipCap, args.GasFeeCap = tip, cap
				}
				msg := evmtypes.NewTx(&args)
				if f[0] == "vfee" {
					td, _ := evmtypes.UnpackTxData(msg.Data)
					fees, err := evmkeeper.VerifyFee(td, "aISLM", base, true, true, false)
					if err != nil {
						out = "err"
						return
					}
					out = "ok " + fees.AmountOf("aISLM").String()
					feeCap := gp
					if typ == 2 {
						feeCap = cap
					}
					if feeCap.Cmp(base) < 0 {
						fl("C07:cap-below-base-accepted", fmt.Sprintf("fee cap %s below base fee %s accepted", feeCap, base))
					}
					return
				}
				ctx, _ := nw.GetContext().CacheContext()
				p := app.FeeMarketKeeper.GetParams(ctx)
				p.MinGasPrice = sdk.NewDecFromBigIntWithPrec(mustBig(f[1]), 18)
				p.BaseFee = sdk.NewIntFromBigInt(base)
				switch vmKV(f)["market"] {
				case "nobasefee":
					p.NoBaseFee = true
					tags = append(tags, "efloor-fee-market-off")
				case "notyet":
					p.EnableHeight = ctx.BlockHeight() + 1000
					tags = append(tags, "efloor-fee-market-not-yet-enabled")
				}
				_ = app.FeeMarketKeeper.SetParams(ctx, p)
				dec := evmante.NewEthMinGasPriceDecorator(app.FeeMarketKeeper, app.EvmKeeper)
				_, err := dec.AnteHandle(ctx.WithIsCheckTx(false), c07MsgTx{[]sdk.Msg{msg}}, false, func(ctx sdk.Context, _ sdk.Tx, _ bool) (sdk.Context, error) { return ctx, nil })
				out = "accept"
				if err != nil {
					out = "reject"
				} else {
					// the property's own predicate: an accepted Ethereum transaction offers at least gasLimit × minGasPrice
					price := gp
					if typ >= 2 {
						price = new(big.Int).Add(tip, base)
						if cap.Cmp(price) < 0 {
							price = cap
						}
					}
					offered := new(big.Int).Mul(new(big.Int).Mul(price, new(big.Int).SetUint64(gas)), new(big.Int).Exp(big.NewInt(10), big.NewInt(18), nil))
					need := new(big.Int).Mul(mustBig(f[1]), new(big.Int).SetUint64(gas))
					if offered.Cmp(need) < 0 {
						fl("C07:eth-floor", fmt.Sprintf("an Ethereum transaction offering %s per gas (gas limit %d) was accepted below the minimum gas price %s/1e18", price, gas, f[1]))
					}
				}
			}
		}()
		outs = append(outs, out)
	}
	return
}
