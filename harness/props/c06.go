package props

import (
	"fmt"
	"math/big"
	"math/rand"
	"os"
	"strings"
	"time"

	abci "github.com/cometbft/cometbft/abci/types"
	codectypes "github.com/cosmos/cosmos-sdk/codec/types"
	sdk "github.com/cosmos/cosmos-sdk/types"
	authante "github.com/cosmos/cosmos-sdk/x/auth/ante"
	authtx "github.com/cosmos/cosmos-sdk/x/auth/tx"
	sdkvesting "github.com/cosmos/cosmos-sdk/x/auth/vesting/types"
	"github.com/cosmos/cosmos-sdk/x/authz"
	banktypes "github.com/cosmos/cosmos-sdk/x/bank/types"
	"github.com/ethereum/go-ethereum/common"

	errorsmod "cosmossdk.io/errors"

	haqqapp "github.com/haqq-network/haqq/app"
	haqqante "github.com/haqq-network/haqq/app/ante"
	cosmosante "github.com/haqq-network/haqq/app/ante/cosmos"
	evmante "github.com/haqq-network/haqq/app/ante/evm"
	utiltx "github.com/haqq-network/haqq/testutil/tx"
	haqqtypes "github.com/haqq-network/haqq/types"
	evmtypes "github.com/haqq-network/haqq/x/evm/types"
)

// C06 — route bypass and blocked types. Ops (shared with lean/HaqqModel/Driver/C06.lean):
//
//	limiter <msgs>      real AuthzLimiterDecorator (constructed as in handler_options.go) on a tx with these messages
//	rejectmsgs <msgs>   real RejectMessagesDecorator
//	gate <exts> <msgs>  whole encoded transaction through the application's composed ante handler (DeliverTx)
//
// tree syntax: E | V | O<k> | G:E | G:V | G:O<k> | X(t,t,…); exts: e,w,d,u<k> | -
func init() {
	Register(&Property{
		ID:   "C06",
		Gen:  c06Gen,
		Exec: c06Exec,
		NonTrivial: func(tags []string) bool {
			return hasTag(tags, "nested-blocked") || hasTag(tags, "gate-reject")
		},
		Rule: "random message trees (depth ≤ 10, width ≤ 5, real authz.MsgExec / MsgGrant{GenericAuthorization} / MsgEthereumTx / MsgCreateVestingAccount / MsgSend) with a blocked message or grant placed at a uniformly chosen position (or none), run through the real AuthzLimiterDecorator / RejectMessagesDecorator, and whole encoded transactions with every extension-option combination up to length 3 through the application's DeliverTx; non-trivial = a blocked message below an exec or a gate rejection; distinct = distinct op sequences",
	})
}

type c06Tree struct {
	kind string // E V O G X
	k    int
	url  string // for G: E V O<k>
	kids []*c06Tree
}

func (t *c06Tree) String() string {
	switch t.kind {
	case "E", "V":
		return t.kind
	case "O":
		return fmt.Sprintf("O%d", t.k)
	case "G":
		return "G:" + t.url
	}
	parts := make([]string, len(t.kids))
	for i, c := range t.kids {
		parts[i] = c.String()
	}
	return "X(" + strings.Join(parts, ",") + ")"
}

func c06ParseList(s string) ([]*c06Tree, string) {
	var out []*c06Tree
	for {
		t, rest := c06ParseOne(s)
		if t == nil {
			return out, s
		}
		out = append(out, t)
		if strings.HasPrefix(rest, ",") {
			s = rest[1:]
			continue
		}
		return out, rest
	}
}

func c06ParseOne(s string) (*c06Tree, string) {
	num := func(s string) (int, string) {
		i := 0
		for i < len(s) && s[i] >= '0' && s[i] <= '9' {
			i++
		}
		n := 0
		fmt.Sscan("0"+s[:i], &n)
		return n, s[i:]
	}
	switch {
	case strings.HasPrefix(s, "E"):
		return &c06Tree{kind: "E"}, s[1:]
	case strings.HasPrefix(s, "V"):
		return &c06Tree{kind: "V"}, s[1:]
	case strings.HasPrefix(s, "O"):
		n, r := num(s[1:])
		return &c06Tree{kind: "O", k: n}, r
	case strings.HasPrefix(s, "G:E"):
		return &c06Tree{kind: "G", url: "E"}, s[3:]
	case strings.HasPrefix(s, "G:V"):
		return &c06Tree{kind: "G", url: "V"}, s[3:]
	case strings.HasPrefix(s, "G:O"):
		n, r := num(s[3:])
		return &c06Tree{kind: "G", url: fmt.Sprintf("O%d", n)}, r
	case strings.HasPrefix(s, "X()"):
		return &c06Tree{kind: "X"}, s[3:]
	case strings.HasPrefix(s, "X("):
		kids, r := c06ParseList(s[2:])
		if strings.HasPrefix(r, ")") {
			return &c06Tree{kind: "X", kids: kids}, r[1:]
		}
	}
	return nil, s
}

func c06Msgs(s string) []*c06Tree {
	if s == "-" {
		return nil
	}
	l, _ := c06ParseList(s)
	return l
}

var c06Nonce uint64
var c06GrantN int

func c06Build(t *c06Tree) sdk.Msg {
	a, b := testAddr(200), testAddr(201)
	switch t.kind {
	case "E":
		to := common.BytesToAddress(b)
		c06Nonce++
		return evmtypes.NewTx(&evmtypes.EvmTxArgs{ChainID: big.NewInt(11235), Nonce: c06Nonce, To: &to, Amount: big.NewInt(1), GasLimit: 21000, GasFeeCap: big.NewInt(1000000000), GasTipCap: big.NewInt(1)})
	case "V":
		return sdkvesting.NewMsgCreateVestingAccount(a, b, sdk.NewCoins(sdk.NewInt64Coin("aISLM", 10)), time.Now().Unix()+1000, false)
	case "O":
		return banktypes.NewMsgSend(a, b, sdk.NewCoins(sdk.NewInt64Coin("aISLM", int64(1+t.k))))
	case "G":
		url := sdk.MsgTypeURL(&banktypes.MsgSend{})
		switch t.url {
		case "E":
			url = sdk.MsgTypeURL(&evmtypes.MsgEthereumTx{})
		case "V":
			url = sdk.MsgTypeURL(&sdkvesting.MsgCreateVestingAccount{})
		default:
			if t.url != "O0" {
				url = sdk.MsgTypeURL(&banktypes.MsgMultiSend{})
			}
		}
		// every other grant carries no expiration (valid: it never expires), the others end in an hour
		var expp *time.Time
		c06GrantN++
		if c06GrantN%2 == 0 {
			exp := time.Now().Add(time.Hour)
			expp = &exp
		}
		g, err := authz.NewMsgGrant(a, b, authz.NewGenericAuthorization(url), expp)
		if err != nil {
			panic(err)
		}
		return g
	default:
		var inner []sdk.Msg
		for _, k := range t.kids {
			inner = append(inner, c06Build(k))
		}
		m := authz.NewMsgExec(b, inner)
		return &m
	}
}

type c06Tx struct{ msgs []sdk.Msg }

func (t c06Tx) GetMsgs() []sdk.Msg   { return t.msgs }
func (t c06Tx) ValidateBasic() error { return nil }

func c06GenTree(r *rand.Rand, depth, maxDepth, maxWidth int, leafOnly bool) *c06Tree {
	if leafOnly || depth >= maxDepth || r.Intn(3) == 0 {
		if r.Intn(6) == 0 {
			return &c06Tree{kind: "G", url: fmt.Sprintf("O%d", r.Intn(2))}
		}
		return &c06Tree{kind: "O", k: r.Intn(4)}
	}
	n := 1 + r.Intn(maxWidth)
	t := &c06Tree{kind: "X"}
	for i := 0; i < n; i++ {
		t.kids = append(t.kids, c06GenTree(r, depth+1, maxDepth, maxWidth, r.Intn(2) == 0))
	}
	return t
}

// all positions (node pointers with their parent list and index) of a forest
type c06Pos struct {
	list *[]*c06Tree
	idx  int
	deep bool // below an exec
}

func c06Positions(list *[]*c06Tree, deep bool, out *[]c06Pos) {
	for i := range *list {
		*out = append(*out, c06Pos{list, i, deep})
		if (*list)[i].kind == "X" {
			c06Positions(&(*list)[i].kids, true, out)
		}
	}
}

func c06Gen(r *rand.Rand, tier string) []Case {
	n := 250
	if tier == "thorough" {
		n = 6000
	}
	var out []Case
	fmtList := func(l []*c06Tree) string {
		if len(l) == 0 {
			return "-"
		}
		p := make([]string, len(l))
		for i, t := range l {
			p[i] = t.String()
		}
		return strings.Join(p, ",")
	}
	exts := []string{"-", "e", "w", "d", "u1", "d,d", "d,e", "d,u1", "e,e", "e,d", "e,u2", "w,w", "w,d", "w,u1", "u1,e", "u1,d", "d,d,u3", "e,d,w", "d,w"}
	for i := 0; i < n; i++ {
		var c Case
		// forest
		var forest []*c06Tree
		w := 1 + r.Intn(3)
		maxDepth := 1 + r.Intn(9)
		for j := 0; j < w; j++ {
			forest = append(forest, c06GenTree(r, 0, maxDepth, 1+r.Intn(4), r.Intn(3) == 0))
		}
		if r.Intn(6) == 0 { // pure nesting chain around the cap
			d := 4 + r.Intn(4)
			t := &c06Tree{kind: "O", k: 0}
			for k := 0; k < d; k++ {
				t = &c06Tree{kind: "X", kids: []*c06Tree{t}}
			}
			forest = []*c06Tree{t}
		}
		c = append(c, "limiter "+fmtList(forest), "rejectmsgs "+fmtList(forest))
		// place one to three blocked messages / grants at uniformly chosen positions (replace, insert before, or
		// append to the chosen list) — several of the same kind at different depths included
		nb := pick(r, []int{1, 1, 2, 2, 3})
		kind := pick(r, []*c06Tree{{kind: "E"}, {kind: "V"}, {kind: "G", url: "E"}, {kind: "G", url: "V"}})
		for b := 0; b < nb; b++ {
			var pos []c06Pos
			c06Positions(&forest, false, &pos)
			if len(pos) == 0 {
				break
			}
			p := pos[r.Intn(len(pos))]
			blk := &c06Tree{kind: kind.kind, url: kind.url}
			if r.Intn(3) == 0 {
				blk = pick(r, []*c06Tree{{kind: "E"}, {kind: "V"}, {kind: "G", url: "E"}, {kind: "G", url: "V"}})
			}
			switch r.Intn(3) {
			case 0:
				(*p.list)[p.idx] = blk
			case 1:
				l := append([]*c06Tree{}, (*p.list)[:p.idx]...)
				l = append(l, blk)
				*p.list = append(l, (*p.list)[p.idx:]...)
			default:
				*p.list = append(*p.list, blk)
			}
		}
		c = append(c, "limiter "+fmtList(forest), "rejectmsgs "+fmtList(forest))
		// whole transactions: only trees whose execs are non-empty (MsgExec.ValidateBasic)
		ok := true
		var chk func(l []*c06Tree)
		chk = func(l []*c06Tree) {
			for _, t := range l {
				if t.kind == "X" {
					if len(t.kids) == 0 {
						ok = false
					}
					chk(t.kids)
				}
			}
		}
		chk(forest)
		// the SDK's MsgCreateVestingAccount is not registered in this chain's interface registry, so an encoded
		// tx holding one is refused by the tx decoder; it only occurs in the decorator-level and direct-ante ops
		hasV := strings.Contains(fmtList(forest), "V")
		if ok && !hasV {
			for k := 0; k < 3; k++ {
				c = append(c, fmt.Sprintf("gate %s %s", pick(r, exts), fmtList(forest)))
			}
			ethOnly := []*c06Tree{{kind: "E"}}
			if r.Intn(2) == 0 {
				ethOnly = append(ethOnly, &c06Tree{kind: "E"})
			}
			c = append(c, fmt.Sprintf("gate %s %s", pick(r, exts), fmtList(ethOnly)))
			mixed := append([]*c06Tree{{kind: "E"}}, &c06Tree{kind: "O", k: 1})
			c = append(c, fmt.Sprintf("gate %s %s", pick(r, []string{"e", "e", "-", "d", "w", "e,d"}), fmtList(mixed)))
		}
		if ok {
			c = append(c, fmt.Sprintf("gate712 %s", pick(r, []string{"w", "w,d", "w,w", "w,e", "w,d,d"})))
			c = append(c, fmt.Sprintf("ante %s %s", pick(r, exts), fmtList(forest)), fmt.Sprintf("ante %s %s", pick(r, []string{"u1", "u2,e", "e,u1", "d,u1", "w,u1"}), fmtList(forest)))
		}
		out = append(out, c)
	}
	// fixed case: signed EIP-712 transactions, alone and with further options appended after signing
	out = append(out, Case{"gate712 w", "gate712 w,d", "gate712 w,w", "gate712 w,e", "gate712 w"})
	return out
}

var c06Direct sdk.AnteHandler

// c06DirectAnte composes the ante handler exactly as app.go does (the facts extractor pins that wiring), so that
// it can be called on a tx object without going through the tx decoder.
func c06DirectAnte() sdk.AnteHandler {
	if c06Direct != nil {
		return c06Direct
	}
	nw, _ := fixture()
	a := nw.App
	options := haqqante.HandlerOptions{
		Cdc:                    a.AppCodec(),
		AccountKeeper:          a.AccountKeeper,
		BankKeeper:             a.BankKeeper,
		ExtensionOptionChecker: haqqtypes.HasDynamicFeeExtensionOption,
		EvmKeeper:              a.EvmKeeper,
		StakingKeeper:          a.StakingKeeper,
		FeegrantKeeper:         a.FeeGrantKeeper,
		DistributionKeeper:     a.DistrKeeper,
		IBCKeeper:              a.IBCKeeper,
		FeeMarketKeeper:        a.FeeMarketKeeper,
		SignModeHandler:        a.GetTxConfig().SignModeHandler(),
		SigGasConsumer:         haqqante.SigVerificationGasConsumer,
		MaxTxGasWanted:         0,
		TxFeeChecker:           evmante.NewDynamicFeeChecker(a.EvmKeeper),
	}
	if err := options.Validate(); err != nil {
		panic(err)
	}
	c06Direct = haqqapp.NewHaqqAnteHandlerDecorator(*a.StakingKeeper.Keeper, haqqante.NewAnteHandler(options))
	return c06Direct
}

func c06HasBlockedBelowExec(l []*c06Tree, below bool) bool {
	for _, t := range l {
		switch t.kind {
		case "E", "V":
			if below {
				return true
			}
		case "G":
			if t.url == "E" || t.url == "V" {
				return true
			}
		case "X":
			if c06HasBlockedBelowExec(t.kids, true) {
				return true
			}
		}
	}
	return false
}

func c06Exec(c Case) (outs []string, fails []Failure, tags []string) {
	nw, _ := fixture()
	ctx := nw.GetContext()
	lim := cosmosante.NewAuthzLimiterDecorator(sdk.MsgTypeURL(&evmtypes.MsgEthereumTx{}), sdk.MsgTypeURL(&sdkvesting.MsgCreateVestingAccount{}))
	next := func(ctx sdk.Context, _ sdk.Tx, _ bool) (sdk.Context, error) { return ctx, nil }
	txCfg := nw.App.GetTxConfig()
	direct := c06DirectAnte()
	for i, line := range c {
		f := strings.Fields(line)
		out := "bad-op"
		func() {
			defer func() {
				if r := recover(); r != nil {
					out = "panic:" + strings.ReplaceAll(fmt.Sprint(r), " ", "_")
				}
			}()
			switch f[0] {
			case "limiter", "rejectmsgs":
				forest := c06Msgs(f[1])
				var msgs []sdk.Msg
				for _, t := range forest {
					msgs = append(msgs, c06Build(t))
				}
				var err error
				if f[0] == "limiter" {
					_, err = lim.AnteHandle(ctx, c06Tx{msgs}, false, next)
					bad := c06HasBlockedBelowExec(forest, false)
					if bad {
						tags = append(tags, "nested-blocked")
					}
					// the property's predicate, independent of the model: a blocked message below an exec / a blocked
					// grant must never reach `next`
					if bad && err == nil {
						fails = append(fails, Failure{Signature: "C06:blocked-nested-message-passed-limiter", What: "a tx with a blocked message below MsgExec (or a MsgGrant of a blocked type) passed the AuthzLimiterDecorator: " + f[1], Case: c[i : i+1]})
					}
				} else {
					_, err = cosmosante.RejectMessagesDecorator{}.AnteHandle(ctx, c06Tx{msgs}, false, next)
					top := false
					for _, t := range forest {
						top = top || t.kind == "E"
					}
					if top && err == nil {
						fails = append(fails, Failure{Signature: "C06:toplevel-eth-passed-reject-decorator", What: "a tx with a top-level MsgEthereumTx passed RejectMessagesDecorator: " + f[1], Case: c[i : i+1]})
					}
				}
				out = "ok"
				if err != nil {
					out = "reject"
				}
			case "gate712":
				// a validly signed legacy EIP-712 transaction (one bank send) whose extension options are the Web3Tx one followed
				// by the listed further ones (appended after signing: the signed payload does not cover extension options)
				_, kr := fixture()
				key := kr.GetKey(1)
				denom := nw.GetDenom()
				msg := banktypes.NewMsgSend(key.AccAddr, kr.GetKey(2).AccAddr, sdk.NewCoins(sdk.NewInt64Coin(denom, 7)))
				builder, err := utiltx.PrepareEIP712CosmosTx(nw.GetContext(), nw.App, utiltx.EIP712TxArgs{
					CosmosTxArgs:       utiltx.CosmosTxArgs{TxCfg: txCfg, Priv: key.Priv, ChainID: nw.GetContext().ChainID(), Gas: 200_000, Fees: sdk.NewCoins(sdk.NewInt64Coin(denom, 400_000_000_000_000)), Msgs: []sdk.Msg{msg}},
					UseLegacyExtension: true, UseLegacyTypedData: true})
				if err != nil {
					panic(err)
				}
				parts := strings.Split(f[1], ",")
				if parts[0] != "w" {
					panic("gate712: the first option is the Web3Tx one")
				}
				anys := append([]*codectypes.Any{}, builder.GetTx().(authante.HasExtensionOptionsTx).GetExtensionOptions()...)
				for _, e := range parts[1:] {
					var a *codectypes.Any
					switch e {
					case "d":
						a, err = codectypes.NewAnyWithValue(&haqqtypes.ExtensionOptionDynamicFeeTx{MaxPriorityPrice: sdk.NewInt(1)})
					case "e":
						a, err = codectypes.NewAnyWithValue(&evmtypes.ExtensionOptionsEthereumTx{})
					default:
						a = anys[0]
					}
					if err != nil {
						panic(err)
					}
					anys = append(anys, a)
				}
				builder.(authtx.ExtensionOptionsTxBuilder).SetExtensionOptions(anys...)
				bz, err := txCfg.TxEncoder()(builder.GetTx())
				if err != nil {
					panic(err)
				}
				res := nw.App.BaseApp.DeliverTx(abci.RequestDeliverTx{Tx: bz})
				out = "reject"
				if res.Code == 0 {
					out = "executed"
					tags = append(tags, "signed-eip712-executed")
					if len(parts) > 1 {
						fails = append(fails, Failure{Signature: "C06:gate-bypass:carrying-a-further-extension-option", What: "a signed EIP-712 transaction carrying further extension options (" + f[1] + ") was executed", Case: c[i : i+1]})
					}
				} else {
					tags = append(tags, "signed-eip712-refused", "gate-reject")
					if os.Getenv("VERIF_DEBUG") != "" {
						fmt.Fprintln(os.Stderr, "gate712", f[1], res.Log)
					}
				}
			case "gate", "ante":
				forest := c06Msgs(f[2])
				var msgs []sdk.Msg
				for _, t := range forest {
					msgs = append(msgs, c06Build(t))
				}
				b := txCfg.NewTxBuilder()
				if err := b.SetMsgs(msgs...); err != nil {
					panic(err)
				}
				b.SetGasLimit(300000)
				b.SetFeeAmount(sdk.NewCoins(sdk.NewInt64Coin("aISLM", 1000000000000000)))
				var anys []*codectypes.Any
				unknown := false
				if f[1] != "-" {
					for _, e := range strings.Split(f[1], ",") {
						var a *codectypes.Any
						var err error
						switch {
						case e == "e":
							a, err = codectypes.NewAnyWithValue(&evmtypes.ExtensionOptionsEthereumTx{})
						case e == "w":
							a, err = codectypes.NewAnyWithValue(&haqqtypes.ExtensionOptionsWeb3Tx{TypedDataChainID: 11235, FeePayer: testAddr(200).String(), FeePayerSig: make([]byte, 65)})
						case e == "d":
							a, err = codectypes.NewAnyWithValue(&haqqtypes.ExtensionOptionDynamicFeeTx{MaxPriorityPrice: sdk.NewInt(1)})
						default:
							unknown = true
							a, err = codectypes.NewAnyWithValue(&banktypes.MsgSend{FromAddress: testAddr(1).String(), ToAddress: testAddr(2).String(), Amount: sdk.NewCoins(sdk.NewInt64Coin("aISLM", 1))})
						}
						if err != nil {
							panic(err)
						}
						anys = append(anys, a)
					}
				}
				if eb, ok := b.(authtx.ExtensionOptionsTxBuilder); ok {
					eb.SetExtensionOptions(anys...)
				} else {
					panic("tx builder without extension options")
				}
				var res abci.ResponseDeliverTx
				if f[0] == "gate" {
					bz, err := txCfg.TxEncoder()(b.GetTx())
					if err != nil {
						panic(err)
					}
					res = nw.App.BaseApp.DeliverTx(abci.RequestDeliverTx{Tx: bz})
				} else {
					// the composed ante handler called directly on the (undecoded) tx object: reaches the router's own
					// handling of an unknown first option
					cctx, _ := ctx.CacheContext()
					_, err := direct(cctx.WithIsCheckTx(false), b.GetTx(), false)
					if err != nil {
						space, code, lg := errorsmod.ABCIInfo(err, true)
						res = abci.ResponseDeliverTx{Codespace: space, Code: code, Log: lg}
					}
				}
				log := res.Log
				switch {
				case res.Code == 0:
					out = "executed"
				case res.Codespace == "sdk" && res.Code == 31:
					out = "ext"
				case res.Codespace == "sdk" && res.Code == 2 && unknown:
					out = "ext" // the tx decoder refuses an extension option it does not know
				case strings.Contains(log, "MsgEthereumTx needs to be contained"):
					out = "ethmsg"
				case strings.Contains(log, "found disabled msg type") || strings.Contains(log, "found more nested msgs"):
					out = "authz"
				case strings.Contains(log, "invalid message type"):
					out = "noneth"
				case strings.Contains(log, "length of ExtensionOptions should be 1"):
					out = "extcount"
				default:
					out = "later"
				}
				if out != "later" {
					tags = append(tags, "gate-reject", "gate-"+out)
				} else {
					tags = append(tags, "gate-later")
				}
				// the property's predicate on the real code
				if out == "executed" || out == "later" {
					what := ""
					switch {
					case unknown && !strings.HasPrefix(f[1], "w"):
						// (on the EIP-712 route the option count is tested by the signature verifier, which an unsigned
						// probe cannot reach; that clause is covered by the regenerated fact eip712VerifierRequiresOneExt)
						what = "a tx carrying an unknown extension option was not rejected by the gate"
					case c06HasBlockedBelowExec(forest, false) && !strings.HasPrefix(f[1], "e"):
						what = "a tx with a blocked nested message / grant passed the gate"
					}
					hasTopEth, allEth := false, len(forest) > 0
					for _, t := range forest {
						hasTopEth = hasTopEth || t.kind == "E"
						allEth = allEth && t.kind == "E"
					}
					if hasTopEth && !strings.HasPrefix(f[1], "e") {
						what = "a MsgEthereumTx outside the Ethereum route passed the gate"
					}
					if strings.HasPrefix(f[1], "e") && !allEth {
						what = "a non-Ethereum message passed the gate on the Ethereum route"
					}
					if what != "" {
						fails = append(fails, Failure{Signature: "C06:gate-bypass:" + strings.ReplaceAll(strings.SplitN(what, " ", 4)[2], " ", "-"), What: what + ": exts=" + f[1] + " msgs=" + f[2] + " → " + out + " (" + log + ")", Case: c[i : i+1]})
					}
				}
			}
		}()
		outs = append(outs, out)
	}
	return
}
