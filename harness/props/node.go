package props

import (
	"crypto/ed25519"
	"crypto/sha256"
	"encoding/hex"
	"encoding/json"
	"fmt"
	tmproto "github.com/cometbft/cometbft/proto/tendermint/types"
	ethtypes "github.com/ethereum/go-ethereum/core/types"
	coinomicstypes "github.com/haqq-network/haqq/x/coinomics/types"
	epochstypes "github.com/haqq-network/haqq/x/epochs/types"
	"math/big"
	"math/rand"
	"os"
	"sort"
	"strings"
	"time"

	sdkmath "cosmossdk.io/math"
	dbm "github.com/cometbft/cometbft-db"
	abci "github.com/cometbft/cometbft/abci/types"
	"github.com/cometbft/cometbft/libs/log"
	tmtypes "github.com/cometbft/cometbft/types"
	"github.com/cosmos/cosmos-sdk/baseapp"
	"github.com/cosmos/cosmos-sdk/client"
	cosmosed25519 "github.com/cosmos/cosmos-sdk/crypto/keys/ed25519"
	storetypes "github.com/cosmos/cosmos-sdk/store/types"
	simtestutil "github.com/cosmos/cosmos-sdk/testutil/sims"
	sdk "github.com/cosmos/cosmos-sdk/types"
	"github.com/cosmos/cosmos-sdk/types/tx/signing"
	authtypes "github.com/cosmos/cosmos-sdk/x/auth/types"
	sdkvesting "github.com/cosmos/cosmos-sdk/x/auth/vesting/types"
	banktypes "github.com/cosmos/cosmos-sdk/x/bank/types"
	govtypes "github.com/cosmos/cosmos-sdk/x/gov/types"
	govv1 "github.com/cosmos/cosmos-sdk/x/gov/types/v1"
	slashingtypes "github.com/cosmos/cosmos-sdk/x/slashing/types"
	stakingtypes "github.com/cosmos/cosmos-sdk/x/staking/types"
	"github.com/cosmos/ibc-go/v7/testing/mock"
	"github.com/ethereum/go-ethereum/common"
	"github.com/ethereum/go-ethereum/common/hexutil"
	"github.com/ethereum/go-ethereum/crypto"

	"github.com/haqq-network/haqq/app"
	"github.com/haqq-network/haqq/crypto/ethsecp256k1"
	"github.com/haqq-network/haqq/encoding"
	"github.com/haqq-network/haqq/precompiles/bech32"
	distrpc "github.com/haqq-network/haqq/precompiles/distribution"
	"github.com/haqq-network/haqq/precompiles/p256"
	stakingpc "github.com/haqq-network/haqq/precompiles/staking"
	"github.com/haqq-network/haqq/testutil"
	utiltx "github.com/haqq-network/haqq/testutil/tx"
	haqqtypes "github.com/haqq-network/haqq/types"
	"github.com/haqq-network/haqq/utils"
	erc20types "github.com/haqq-network/haqq/x/erc20/types"
	evmtypes "github.com/haqq-network/haqq/x/evm/types"
	lvtypes "github.com/haqq-network/haqq/x/liquidvesting/types"
	ucdaotypes "github.com/haqq-network/haqq/x/ucdao/types"
	vestingtypes "github.com/haqq-network/haqq/x/vesting/types"
)

// A "node world": one genesis document, deterministic keys, and applications built by the harness itself
// (app.NewHaqq over a database the harness owns), so that a history of blocks can be fed to several
// independently constructed applications: a second replica from genesis (C01), an application restarted on a
// copy of the database at a block boundary (C20), an application initialised from an export (C19); after every
// block the registered crisis invariants can be evaluated (C15).
//
// Op lines (monitor-only; the Lean side of these properties consists of regenerated facts and theorems):
//
//	world # seed=<n>
//	blk # dt=<seconds> txs=<tx>|<tx>|…          one block; the transactions are built against node A's state
//	restart                                       C20: restart point at this block boundary
//	export                                        C19: export / re-import point at this block boundary
//
// Transactions:  send.k.j.amt  eth.k.amt  deploy.k  fundpup.k.amt  approve.k  pup.k.value.<script>
// deleg.k.amt  mdeleg.k.amt  mundeleg.k.amt  dao.k.amt  wdr.k  govswap.out.in  vote.id  pc.k.name  badnonce.k
const (
	nodeChainID   = utils.TestEdge2ChainID + "-3"
	nodeBlockTime = 6 * time.Second
	nodeVoting    = 12 * time.Second
	// a second denomination every key holds from genesis (deposits and burns of more than one denomination)
	nodeSecondDenom = "utest"
	nodeKeys        = 6
	nodeCosmosGas   = uint64(2_000_000)
	nodeBech32Addr  = "0x0000000000000000000000000000000000000400"
)

type nodeWorld struct {
	seed        int64
	valSet      *tmtypes.ValidatorSet
	valAddr     sdk.ValAddress
	proposer    sdk.ConsAddress
	val2Addr    sdk.ValAddress // a second genesis validator: the one that double-signs
	val2Cons    []byte
	val2Out     bool // jailed (no longer votes)
	keys        []*ethsecp256k1.PrivKey
	genesis     []byte
	genesisTime time.Time
	txCfg       client.TxConfig
	fresh       int
	puppet      common.Address
	bhProbe     common.Address // a contract that stores BLOCKHASH(calldata[0:32]) in slot 0
	lastUnprot  []byte         // the bytes of the last unprotected (pre-EIP-155) Ethereum transaction built
	nextProp    uint64
	bigGas      bool
	codeless    []common.Address
}

func (w *nodeWorld) acc(k int) sdk.AccAddress {
	return sdk.AccAddress(w.keys[k].PubKey().Address().Bytes())
}
func (w *nodeWorld) eth(k int) common.Address { return common.BytesToAddress(w.acc(k).Bytes()) }
func (w *nodeWorld) freshAddr() common.Address {
	w.fresh++
	h := sha256.Sum256([]byte(fmt.Sprintf("fresh/%d/%d", w.seed, w.fresh)))
	return common.BytesToAddress(h[:20])
}

func nodeNewApp(db dbm.DB) *app.Haqq {
	return app.NewHaqq(log.NewNopLogger(), db, nil, true, map[int64]bool{}, app.DefaultNodeHome, 0,
		encoding.MakeConfig(app.ModuleBasics), simtestutil.NewAppOptionsWithFlagHome(app.DefaultNodeHome),
		baseapp.SetChainID(nodeChainID))
}

// nodeOpts: app options of a node whose operator has set the node-local knobs of app.toml differently (they tune the
// mempool, tracing and start-up checks and must not reach consensus)
type nodeOpts map[string]interface{}

func (o nodeOpts) Get(k string) interface{} { return o[k] }

func nodeNewAppOtherOperator(db dbm.DB) *app.Haqq {
	return app.NewHaqq(log.NewNopLogger(), db, nil, true, map[int64]bool{}, app.DefaultNodeHome, 0,
		encoding.MakeConfig(app.ModuleBasics), nodeOpts{"home": app.DefaultNodeHome, "evm.max-tx-gas-wanted": uint64(60_000),
			"x-crisis-skip-assert-invariants": true, "minimum-gas-prices": "5aISLM", "iavl-cache-size": 10, "inter-block-cache": false},
		baseapp.SetChainID(nodeChainID))
}

func nodeCopyDB(src dbm.DB) dbm.DB {
	dst := dbm.NewMemDB()
	it, err := src.Iterator(nil, nil)
	if err != nil {
		panic(err)
	}
	defer it.Close()
	for ; it.Valid(); it.Next() {
		k := append([]byte{}, it.Key()...)
		v := append([]byte{}, it.Value()...)
		if err := dst.Set(k, v); err != nil {
			panic(err)
		}
	}
	return dst
}

func without(all []string, drop string) []string {
	var out []string
	for _, a := range all {
		if a != drop {
			out = append(out, a)
		}
	}
	return out
}

// newNodeWorld builds the genesis document; everything is derived from the seed.
func newNodeWorld(seed int64) *nodeWorld {
	w := &nodeWorld{seed: seed, genesisTime: time.Date(2024, 1, 1, 0, 0, 0, 0, time.UTC), nextProp: 1}
	vs := sha256.Sum256([]byte(fmt.Sprintf("validator/%d", seed)))
	pv := mock.PV{PrivKey: &cosmosed25519.PrivKey{Key: ed25519.NewKeyFromSeed(vs[:])}}
	pub, err := pv.GetPubKey()
	if err != nil {
		panic(err)
	}
	validator := tmtypes.NewValidator(pub, 1)
	vs2 := sha256.Sum256([]byte(fmt.Sprintf("validator2/%d", seed)))
	pv2 := mock.PV{PrivKey: &cosmosed25519.PrivKey{Key: ed25519.NewKeyFromSeed(vs2[:])}}
	pub2, err := pv2.GetPubKey()
	if err != nil {
		panic(err)
	}
	validator2 := tmtypes.NewValidator(pub2, 1)
	w.valSet = tmtypes.NewValidatorSet([]*tmtypes.Validator{validator, validator2})
	w.proposer = sdk.ConsAddress(validator.Address)
	w.valAddr = sdk.ValAddress(validator.Address)
	w.val2Addr = sdk.ValAddress(validator2.Address)
	w.val2Cons = validator2.Address
	var accs []authtypes.GenesisAccount
	var bals []banktypes.Balance
	for i := 0; i < nodeKeys; i++ {
		ks := sha256.Sum256([]byte(fmt.Sprintf("key/%d/%d", seed, i)))
		w.keys = append(w.keys, &ethsecp256k1.PrivKey{Key: ks[:]})
		accs = append(accs, &haqqtypes.EthAccount{BaseAccount: authtypes.NewBaseAccount(w.acc(i), nil, 0, 0), CodeHash: common.BytesToHash(crypto.Keccak256(nil)).Hex()})
		bals = append(bals, banktypes.Balance{Address: w.acc(i).String(),
			Coins: sdk.NewCoins(sdk.NewCoin(utils.BaseDenom, sdk.TokensFromConsensusPower(1_000_000, sdk.DefaultPowerReduction)), sdk.NewCoin(nodeSecondDenom, sdkmath.NewInt(1_000_000_000_000)))})
	}
	tmp := nodeNewApp(dbm.NewMemDB())
	cdc := tmp.AppCodec()
	gs := app.GenesisStateWithValSet(tmp, app.NewDefaultGenesisState(), w.valSet, accs, bals...)
	// (the helper funds the bonded pool for one validator only)
	{
		var bankGen banktypes.GenesisState
		cdc.MustUnmarshalJSON(gs[banktypes.ModuleName], &bankGen)
		pool := authtypes.NewModuleAddress(stakingtypes.BondedPoolName).String()
		for i := range bankGen.Balances {
			if bankGen.Balances[i].Address == pool {
				bankGen.Balances[i].Coins = sdk.NewCoins(sdk.NewCoin(utils.BaseDenom, sdk.DefaultPowerReduction.MulRaw(int64(len(w.valSet.Validators)))))
			}
		}
		gs[banktypes.ModuleName] = cdc.MustMarshalJSON(&bankGen)
	}
	evmGen := evmtypes.DefaultGenesisState()
	evmGen.Params.ActivePrecompiles = without(evmtypes.AvailableEVMExtensions, nodeBech32Addr)
	// one world in three starts with unprotected (pre-EIP-155) transactions allowed; governance switches that off later
	evmGen.Params.AllowUnprotectedTxs = seed%3 == 1
	gs[evmtypes.ModuleName] = cdc.MustMarshalJSON(evmGen)
	if seed%5 == 0 {
		// one world in five is about to reach the coinomics cap: a few blocks of minting are left
		var bankGen banktypes.GenesisState
		cdc.MustUnmarshalJSON(gs[banktypes.ModuleName], &bankGen)
		var cg coinomicstypes.GenesisState
		cdc.MustUnmarshalJSON(gs[coinomicstypes.ModuleName], &cg)
		cg.MaxSupply = sdk.NewCoin(utils.BaseDenom, bankGen.Supply.AmountOf(utils.BaseDenom).Add(sdkmath.NewInt(1_200_000_000_000)))
		gs[coinomicstypes.ModuleName] = cdc.MustMarshalJSON(&cg)
	}
	{
		// epochs that do not share their boundaries and turn over within a history: "day" every 30 s from genesis, "week"
		// every 50 s starting 17 s later (nothing in Haqq hooks into the identifiers)
		var eg epochstypes.GenesisState
		cdc.MustUnmarshalJSON(gs[epochstypes.ModuleName], &eg)
		for i := range eg.Epochs {
			switch eg.Epochs[i].Identifier {
			case epochstypes.DayEpochID:
				eg.Epochs[i].Duration, eg.Epochs[i].StartTime = 30*time.Second, w.genesisTime
			case epochstypes.WeekEpochID:
				eg.Epochs[i].Duration, eg.Epochs[i].StartTime = 50*time.Second, w.genesisTime.Add(17*time.Second)
			}
		}
		gs[epochstypes.ModuleName] = cdc.MustMarshalJSON(&eg)
	}
	govGen := govv1.DefaultGenesisState()
	vp := nodeVoting
	govGen.Params.VotingPeriod = &vp
	govGen.Params.MinDeposit = sdk.NewCoins(sdk.NewCoin(utils.BaseDenom, sdkmath.NewInt(1_000_000)))
	gs[govtypes.ModuleName] = cdc.MustMarshalJSON(govGen)
	// one world in two keeps only a few historical headers: BLOCKHASH of an older height is then the zero hash
	if seed%2 == 0 {
		var stGen stakingtypes.GenesisState
		cdc.MustUnmarshalJSON(gs[stakingtypes.ModuleName], &stGen)
		stGen.Params.HistoricalEntries = 3
		gs[stakingtypes.ModuleName] = cdc.MustMarshalJSON(&stGen)
	}
	slGen := slashingtypes.DefaultGenesisState()
	slGen.SigningInfos = []slashingtypes.SigningInfo{{Address: w.proposer.String(),
		ValidatorSigningInfo: slashingtypes.NewValidatorSigningInfo(w.proposer, 0, 0, time.Unix(0, 0).UTC(), false, 0)},
		{Address: sdk.ConsAddress(w.val2Cons).String(),
			ValidatorSigningInfo: slashingtypes.NewValidatorSigningInfo(sdk.ConsAddress(w.val2Cons), 0, 0, time.Unix(0, 0).UTC(), false, 0)}}
	gs[slashingtypes.ModuleName] = cdc.MustMarshalJSON(slGen)
	bz, err := json.MarshalIndent(gs, "", " ")
	if err != nil {
		panic(err)
	}
	w.genesis = bz
	w.txCfg = encoding.MakeConfig(app.ModuleBasics).TxConfig
	return w
}

func (w *nodeWorld) initChain(a *app.Haqq) {
	a.InitChain(abci.RequestInitChain{Time: w.genesisTime, ChainId: nodeChainID, Validators: []abci.ValidatorUpdate{},
		ConsensusParams: app.DefaultConsensusParams, AppStateBytes: w.genesis})
}

type nodeBlock struct {
	height int64
	time   time.Time
	txs    [][]byte
	// the second validator voted on the previous block; this block carries evidence that it signed twice
	val2Votes bool
	evidence  bool
}

type nodeBlockResult struct {
	txs     []string // canonical per-transaction results
	end     string   // validator updates and EndBlock events
	appHash string
}

func canonTx(r abci.ResponseDeliverTx) string {
	ev := sha256.New()
	for _, e := range r.Events {
		bz, _ := e.Marshal()
		ev.Write(bz)
	}
	d := sha256.Sum256(r.Data)
	lg := ""
	if r.Code != 0 {
		lg = r.Log
	}
	return fmt.Sprintf("code=%d/%s gas=%d/%d data=%x events=%x log=%q", r.Code, r.Codespace, r.GasWanted, r.GasUsed, d[:6], ev.Sum(nil)[:6], lg)
}

func (w *nodeWorld) begin(a *app.Haqq, b nodeBlock) sdk.Context {
	header := testutil.NewHeader(b.height, b.time, nodeChainID, w.proposer, a.LastCommitID().Hash, w.valSet.Hash())
	var hash []byte
	if th, err := tmtypes.HeaderFromProto(&header); err == nil {
		hash = th.Hash()
	}
	votes := []abci.VoteInfo{{Validator: abci.Validator{Address: w.proposer, Power: 1}, SignedLastBlock: true}}
	if b.val2Votes {
		votes = append(votes, abci.VoteInfo{Validator: abci.Validator{Address: w.val2Cons, Power: 1}, SignedLastBlock: true})
	}
	var ev []abci.Misbehavior
	if b.evidence {
		ev = []abci.Misbehavior{{Type: abci.MisbehaviorType_DUPLICATE_VOTE, Validator: abci.Validator{Address: w.val2Cons, Power: 1},
			Height: b.height - 1, Time: b.time.Add(-time.Second), TotalVotingPower: 2}}
	}
	a.BeginBlock(abci.RequestBeginBlock{Hash: hash, Header: header, LastCommitInfo: abci.CommitInfo{Votes: votes}, ByzantineValidators: ev})
	return a.BaseApp.NewContext(false, header)
}

func (w *nodeWorld) end(a *app.Haqq, b nodeBlock) (string, string) {
	r := a.EndBlock(abci.RequestEndBlock{Height: b.height})
	ev := sha256.New()
	for _, e := range r.Events {
		bz, _ := e.Marshal()
		ev.Write(bz)
	}
	var vu []string
	for _, u := range r.ValidatorUpdates {
		bz, _ := u.Marshal()
		vu = append(vu, hex.EncodeToString(bz))
	}
	a.Commit()
	return fmt.Sprintf("valupdates=%s events=%x", strings.Join(vu, ","), ev.Sum(nil)[:6]), hex.EncodeToString(a.LastCommitID().Hash)
}

// replay feeds recorded blocks to another application and returns the per-block results.
func (w *nodeWorld) replay(a *app.Haqq, blocks []nodeBlock) []nodeBlockResult {
	var out []nodeBlockResult
	for _, b := range blocks {
		w.begin(a, b)
		var res nodeBlockResult
		for _, bz := range b.txs {
			res.txs = append(res.txs, canonTx(a.DeliverTx(abci.RequestDeliverTx{Tx: bz})))
		}
		res.end, res.appHash = w.end(a, b)
		out = append(out, res)
	}
	return out
}

func diffBlocks(want, got []nodeBlockResult, first int64) []string {
	var d []string
	for i := range want {
		if i >= len(got) {
			d = append(d, fmt.Sprintf("block %d missing", first+int64(i)))
			break
		}
		for j := range want[i].txs {
			if j >= len(got[i].txs) || want[i].txs[j] != got[i].txs[j] {
				g := "missing"
				if j < len(got[i].txs) {
					g = got[i].txs[j]
				}
				d = append(d, fmt.Sprintf("block %d tx %d: %s  vs  %s", first+int64(i), j, want[i].txs[j], g))
			}
		}
		if want[i].end != got[i].end {
			d = append(d, fmt.Sprintf("block %d end: %s  vs  %s", first+int64(i), want[i].end, got[i].end))
		}
		if want[i].appHash != got[i].appHash {
			d = append(d, fmt.Sprintf("block %d app hash: %s  vs  %s", first+int64(i), want[i].appHash[:12], got[i].appHash[:12]))
		}
		if len(d) > 6 {
			break
		}
	}
	return d
}

// ---- transaction builders (against node A's deliver state) ----

var nodeGasPrice = sdkmath.NewInt(10_000_000_000)

func (w *nodeWorld) ethTx(a *app.Haqq, ctx sdk.Context, k int, to *common.Address, amount *big.Int, input []byte, gas uint64, nonceDelta uint64) []byte {
	msg := evmtypes.NewTx(&evmtypes.EvmTxArgs{ChainID: a.EvmKeeper.ChainID(), Nonce: a.EvmKeeper.GetNonce(ctx, w.eth(k)) + nonceDelta,
		To: to, Amount: amount, GasLimit: gas, GasPrice: nodeGasPrice.BigInt(), Input: input})
	msg.From = w.eth(k).String()
	tx, err := utiltx.PrepareEthTx(w.txCfg, a, w.keys[k], msg)
	if err != nil {
		panic(err)
	}
	bz, err := w.txCfg.TxEncoder()(tx)
	if err != nil {
		panic(err)
	}
	return bz
}

func (w *nodeWorld) cosmosTx(a *app.Haqq, ctx sdk.Context, k int, msgs ...sdk.Msg) []byte {
	tx, err := utiltx.PrepareCosmosTx(ctx, a, utiltx.CosmosTxArgs{TxCfg: w.txCfg, Priv: w.keys[k], ChainID: nodeChainID,
		Gas: w.cosmosGas(), GasPrice: &nodeGasPrice, Msgs: msgs}, signing.SignMode_SIGN_MODE_DIRECT)
	if err != nil {
		panic(err)
	}
	bz, err := w.txCfg.TxEncoder()(tx)
	if err != nil {
		panic(err)
	}
	return bz
}

func (w *nodeWorld) cosmosGas() uint64 {
	if w.bigGas {
		return 12_000_000
	}
	return nodeCosmosGas
}

// buildTxs turns one transaction token into signed transaction bytes (possibly two transactions).
func (w *nodeWorld) buildTxs(a *app.Haqq, ctx sdk.Context, tok string) [][]byte {
	f := strings.Split(tok, ".")
	ki := func(i int) int { return vmIdx(f[i]) % nodeKeys }
	coin := func(s string) sdk.Coins {
		return sdk.NewCoins(sdk.NewCoin(utils.BaseDenom, sdkmath.NewIntFromBigInt(mustBig(s))))
	}
	stk := common.HexToAddress(stakingpc.PrecompileAddress)
	sabi, _ := stakingpc.LoadABI()
	switch f[0] {
	case "send":
		to := w.acc(ki(2))
		if vmIdx(f[2]) >= nodeKeys {
			to = sdk.AccAddress(w.freshAddr().Bytes())
		}
		return [][]byte{w.cosmosTx(a, ctx, ki(1), banktypes.NewMsgSend(w.acc(ki(1)), to, coin(f[3])))}
	case "eth":
		to := w.freshAddr()
		return [][]byte{w.ethTx(a, ctx, ki(1), &to, mustBig(f[2]), nil, 100_000, 0)}
	case "mdeleg2":
		return [][]byte{w.cosmosTx(a, ctx, ki(1), stakingtypes.NewMsgDelegate(w.acc(ki(1)), w.val2Addr, coin(f[2])[0]))}
	case "mundeleg2":
		return [][]byte{w.cosmosTx(a, ctx, ki(1), stakingtypes.NewMsgUndelegate(w.acc(ki(1)), w.val2Addr, coin(f[2])[0]))}
	case "mredel2":
		return [][]byte{w.cosmosTx(a, ctx, ki(1), stakingtypes.NewMsgBeginRedelegate(w.acc(ki(1)), w.val2Addr, w.valAddr, coin(f[2])[0]))}
	case "pcsel":
		// a call to a stateful precompile with a selector its ABI does not know: the transaction is included with a VM
		// error, whose text is part of the transaction's result
		to := stk
		if f[2] == "distribution" {
			d, _ := distrpc.NewPrecompile(puppetZeroDistr())
			to = d.Address()
		}
		return [][]byte{w.ethTx(a, ctx, ki(1), &to, nil, append([]byte{0xde, 0xad, 0xbe, 0xef}, make([]byte, 64)...), 200_000, 0)}
	case "pcdeleg2":
		// key k calls the staking precompile directly: delegate(k, second validator, amount) — the amount may be 0,
		// which the native message refuses in ValidateBasic (messages that arrive through a precompile never pass it)
		in, err := sabi.Pack("delegate", w.eth(ki(1)), w.val2Addr.String(), mustBig(f[2]))
		if err != nil {
			panic(err)
		}
		return [][]byte{w.ethTx(a, ctx, ki(1), &stk, nil, in, 500_000, 0)}
	case "ethm":
		// an EVM value transfer to the hex form of a module account
		to := common.BytesToAddress(authtypes.NewModuleAddress(f[2]).Bytes())
		return [][]byte{w.ethTx(a, ctx, ki(1), &to, mustBig(f[3]), nil, 100_000, 0)}
	case "badnonce":
		to := w.freshAddr()
		return [][]byte{w.ethTx(a, ctx, ki(1), &to, big.NewInt(1), nil, 100_000, 3)}
	case "deploy":
		w.puppet = crypto.CreateAddress(w.eth(ki(1)), a.EvmKeeper.GetNonce(ctx, w.eth(ki(1))))
		return [][]byte{w.ethTx(a, ctx, ki(1), nil, nil, c07InitCode(puppetRuntime()), 1_500_000, 0)}
	case "bhdeploy":
		// PUSH1 0, CALLDATALOAD, BLOCKHASH, PUSH1 0, SSTORE, STOP
		w.bhProbe = crypto.CreateAddress(w.eth(ki(1)), a.EvmKeeper.GetNonce(ctx, w.eth(ki(1))))
		return [][]byte{w.ethTx(a, ctx, ki(1), nil, nil, c07InitCode([]byte{0x60, 0x00, 0x35, 0x40, 0x60, 0x00, 0x55, 0x00}), 300_000, 0)}
	case "bhash":
		// BLOCKHASH of the height `back` blocks before the block this transaction is built for
		h := ctx.BlockHeight() - int64(vmIdx(f[2]))
		if h < 0 {
			h = 0
		}
		return [][]byte{w.ethTx(a, ctx, ki(1), &w.bhProbe, nil, common.BigToHash(big.NewInt(h)).Bytes(), 100_000, 0)}
	case "fundpup":
		return [][]byte{w.ethTx(a, ctx, ki(1), &w.puppet, mustBig(f[2]), nil, 100_000, 0)}
	case "approve":
		huge, _ := new(big.Int).SetString("1000000000000000000000000", 10)
		in, err := sabi.Pack("approve", w.puppet, huge, []string{stakingpc.DelegateMsg, stakingpc.UndelegateMsg})
		if err != nil {
			panic(err)
		}
		return [][]byte{w.ethTx(a, ctx, ki(1), &stk, nil, in, 500_000, 0)}
	case "pup":
		var toks []string
		if len(f) > 3 && f[3] != "" {
			toks = strings.Split(f[3], ",")
		}
		ref := puppetRef{dE: big.NewInt(0), dP: big.NewInt(0), dX: big.NewInt(0), bondE: big.NewInt(0), bondP: big.NewInt(0)}
		sc := puppetCompileFor(toks, &ref, w.valAddr.String(), w.eth(ki(1)), w.puppet, w.freshAddr)
		return [][]byte{w.ethTx(a, ctx, ki(1), &w.puppet, mustBig(f[2]), sc.bytes, 2_000_000, 0)}
	case "deleg":
		in, err := sabi.Pack("delegate", w.eth(ki(1)), w.valAddr.String(), mustBig(f[2]))
		if err != nil {
			panic(err)
		}
		return [][]byte{w.ethTx(a, ctx, ki(1), &stk, nil, in, 500_000, 0)}
	case "mdeleg":
		return [][]byte{w.cosmosTx(a, ctx, ki(1), stakingtypes.NewMsgDelegate(w.acc(ki(1)), w.valAddr, coin(f[2])[0]))}
	case "mundeleg":
		return [][]byte{w.cosmosTx(a, ctx, ki(1), stakingtypes.NewMsgUndelegate(w.acc(ki(1)), w.valAddr, coin(f[2])[0]))}
	case "dao":
		return [][]byte{w.cosmosTx(a, ctx, ki(1), ucdaotypes.NewMsgFund(coin(f[2]), w.acc(ki(1))))}
	case "codeless":
		// a creation transaction whose constructor stores two slots and returns no runtime code: an account with the
		// empty code hash and live storage
		init := common.FromHex("0x602a600055600760015560006000f3")
		w.codeless = append(w.codeless, crypto.CreateAddress(w.eth(ki(1)), a.EvmKeeper.GetNonce(ctx, w.eth(ki(1)))))
		return [][]byte{w.ethTx(a, ctx, ki(1), nil, nil, init, 200_000, 0)}
	case "vest":
		// funder k converts key j into a vesting account: lockup in three future steps, vesting already complete
		amt := mustBig(f[3])
		third := new(big.Int).Div(amt, big.NewInt(3))
		rest := new(big.Int).Sub(amt, new(big.Int).Mul(third, big.NewInt(2)))
		c3 := func(x *big.Int) sdk.Coins {
			return sdk.NewCoins(sdk.NewCoin(utils.BaseDenom, sdkmath.NewIntFromBigInt(x)))
		}
		lock := sdkvesting.Periods{{Length: 100000, Amount: c3(third)}, {Length: 100000, Amount: c3(third)}, {Length: 100000, Amount: c3(rest)}}
		vst := sdkvesting.Periods{{Length: 1, Amount: c3(amt)}}
		msg := vestingtypes.NewMsgConvertIntoVestingAccount(w.acc(ki(1)), w.acc(ki(2)), ctx.BlockTime().Add(-10*time.Second), lock, vst, true, false, nil)
		return [][]byte{w.cosmosTx(a, ctx, ki(1), msg)}
	case "vestc":
		// funder k converts the address at which key d's next deployment will land into a vesting account; the deployment
		// that follows puts a contract under that vesting account (the vesting module refuses to convert an existing
		// contract, but nothing stops a contract from being created under a vesting account)
		amt := mustBig(f[3])
		c3 := func(x *big.Int) sdk.Coins {
			return sdk.NewCoins(sdk.NewCoin(utils.BaseDenom, sdkmath.NewIntFromBigInt(x)))
		}
		target := crypto.CreateAddress(w.eth(ki(2)), a.EvmKeeper.GetNonce(ctx, w.eth(ki(2))))
		lock := sdkvesting.Periods{{Length: 500000, Amount: c3(amt)}}
		vst := sdkvesting.Periods{{Length: 1, Amount: c3(amt)}}
		msg := vestingtypes.NewMsgConvertIntoVestingAccount(w.acc(ki(1)), sdk.AccAddress(target.Bytes()), ctx.BlockTime().Add(-10*time.Second), lock, vst, true, false, nil)
		return [][]byte{w.cosmosTx(a, ctx, ki(1), msg)}
	case "vestt":
		// funder k converts key j into a vesting account whose first lockup period holds a single base unit: a
		// liquidation from it gives the liquid denomination a first period with an empty amount (the proportional split
		// rounds down) — which still carries its length
		amt := mustBig(f[3])
		c3 := func(x *big.Int) sdk.Coins {
			return sdk.NewCoins(sdk.NewCoin(utils.BaseDenom, sdkmath.NewIntFromBigInt(x)))
		}
		lock := sdkvesting.Periods{{Length: 100000, Amount: c3(big.NewInt(1))}, {Length: 100000, Amount: c3(new(big.Int).Sub(amt, big.NewInt(1)))}}
		vst := sdkvesting.Periods{{Length: 1, Amount: c3(amt)}}
		msg := vestingtypes.NewMsgConvertIntoVestingAccount(w.acc(ki(1)), w.acc(ki(2)), ctx.BlockTime().Add(-10*time.Second), lock, vst, true, false, nil)
		return [][]byte{w.cosmosTx(a, ctx, ki(1), msg)}
	case "liq":
		w.bigGas = true // liquidation deploys an ERC20 contract for the new denomination
		defer func() { w.bigGas = false }()
		return [][]byte{w.cosmosTx(a, ctx, ki(1), lvtypes.NewMsgLiquidate(w.acc(ki(1)), w.acc(ki(2)), coin(f[3])[0]))}
	case "liqfail":
		// a liquidation that fails half way: the recipient is a module account the bank refuses to pay (the new liquid
		// denomination has been created by then); the transaction rolls back
		w.bigGas = true
		defer func() { w.bigGas = false }()
		return [][]byte{w.cosmosTx(a, ctx, ki(1), lvtypes.NewMsgLiquidate(w.acc(ki(1)), authtypes.NewModuleAddress(authtypes.FeeCollectorName), coin(f[2])[0]))}
	case "redeem":
		denom := fmt.Sprintf("aLIQUID%d", vmIdx(f[3]))
		return [][]byte{w.cosmosTx(a, ctx, ki(1), lvtypes.NewMsgRedeem(w.acc(ki(1)), w.acc(ki(2)), sdk.NewCoin(denom, sdkmath.NewIntFromBigInt(mustBig(f[4])))))}
	case "cvt", "cvtback":
		// convert the ERC20 representation of liquid denomination d into bank coins (cvt) or back (cvtback)
		denom := fmt.Sprintf("aLIQUID%d", vmIdx(f[2]))
		pair, ok := a.Erc20Keeper.GetTokenPair(ctx, a.Erc20Keeper.GetTokenPairID(ctx, denom))
		if !ok {
			return nil
		}
		amt := sdkmath.NewIntFromBigInt(mustBig(f[3]))
		w.bigGas = true
		defer func() { w.bigGas = false }()
		if f[0] == "cvt" {
			return [][]byte{w.cosmosTx(a, ctx, ki(1), erc20types.NewMsgConvertERC20(amt, w.acc(ki(1)), pair.GetERC20Contract(), w.eth(ki(1))))}
		}
		return [][]byte{w.cosmosTx(a, ctx, ki(1), erc20types.NewMsgConvertCoin(sdk.NewCoin(denom, amt), w.eth(ki(1)), w.acc(ki(1))))}
	case "daoliq":
		// fund the DAO with a liquid denomination and with the base denomination (a holder of two denominations)
		liquid := sdk.NewCoin(fmt.Sprintf("aLIQUID%d", vmIdx(f[2])), sdkmath.NewIntFromBigInt(mustBig(f[3])))
		return [][]byte{w.cosmosTx(a, ctx, ki(1), ucdaotypes.NewMsgFund(sdk.NewCoins(liquid), w.acc(ki(1)))),
			[]byte("again:dao." + f[1] + ".12345")}
	case "daoxfer":
		return [][]byte{w.cosmosTx(a, ctx, ki(1), ucdaotypes.NewMsgTransferOwnership(w.acc(ki(1)), w.acc(ki(2))))}
	case "wdr":
		dpc := common.HexToAddress("0x0000000000000000000000000000000000000801")
		d, _ := distrpc.NewPrecompile(puppetZeroDistr())
		in, err := d.ABI.Pack("withdrawDelegatorRewards", w.eth(ki(1)), w.valAddr.String())
		if err != nil {
			panic(err)
		}
		return [][]byte{w.ethTx(a, ctx, ki(1), &dpc, nil, in, 500_000, 0)}
	case "govswap":
		// a governance proposal that swaps one active EVM extension for another (same number of active ones), and the vote
		p := a.EvmKeeper.GetParams(ctx)
		var next []string
		for _, x := range evmtypes.AvailableEVMExtensions {
			if x != nodePCAddr(f[1]) {
				next = append(next, x)
			}
		}
		p.ActivePrecompiles = next
		upd := &evmtypes.MsgUpdateParams{Authority: authtypes.NewModuleAddress(govtypes.ModuleName).String(), Params: p}
		sub, err := govv1.NewMsgSubmitProposal([]sdk.Msg{upd}, sdk.NewCoins(sdk.NewCoin(utils.BaseDenom, sdkmath.NewInt(1_000_000))), w.acc(0).String(), "", "swap", "swap extensions")
		if err != nil {
			panic(err)
		}
		id := w.nextProp
		w.nextProp++
		tx1 := w.cosmosTx(a, ctx, 0, sub)
		return [][]byte{tx1, nil, []byte(fmt.Sprintf("vote:%d", id))}
	case "vests":
		// funder k converts key j into a vesting account and has the vested part staked (stake=true) with the second validator
		amt := mustBig(f[3])
		half := new(big.Int).Div(amt, big.NewInt(2))
		c3 := func(x *big.Int) sdk.Coins {
			return sdk.NewCoins(sdk.NewCoin(utils.BaseDenom, sdkmath.NewIntFromBigInt(x)))
		}
		lock := sdkvesting.Periods{{Length: 200000, Amount: c3(amt)}}
		vst := sdkvesting.Periods{{Length: 1, Amount: c3(half)}, {Length: 300000, Amount: c3(new(big.Int).Sub(amt, half))}}
		msg := vestingtypes.NewMsgConvertIntoVestingAccount(w.acc(ki(1)), w.acc(ki(2)), ctx.BlockTime().Add(-10*time.Second), lock, vst, true, true, w.val2Addr)
		return [][]byte{w.cosmosTx(a, ctx, ki(1), msg)}
	case "unprot":
		// an unprotected (Homestead-signed) Ethereum transaction whose nonce is ahead: it passes signature verification
		// (while unprotected transactions are allowed) and fails on its nonce; the bytes are kept
		to := w.freshAddr()
		msg := evmtypes.NewTx(&evmtypes.EvmTxArgs{Nonce: a.EvmKeeper.GetNonce(ctx, w.eth(ki(1))) + 3, To: &to, Amount: big.NewInt(1), GasLimit: 100_000, GasPrice: nodeGasPrice.BigInt()})
		msg.From = w.eth(ki(1)).String()
		if err := msg.Sign(ethtypes.HomesteadSigner{}, utiltx.NewSigner(w.keys[ki(1)])); err != nil {
			panic(err)
		}
		tx, err := utiltx.PrepareEthTx(w.txCfg, a, nil, msg)
		if err != nil {
			panic(err)
		}
		bz, err := w.txCfg.TxEncoder()(tx)
		if err != nil {
			panic(err)
		}
		w.lastUnprot = bz
		return [][]byte{bz}
	case "redeliver":
		if w.lastUnprot == nil {
			return nil
		}
		return [][]byte{w.lastUnprot}
	case "govunprot":
		p := a.EvmKeeper.GetParams(ctx)
		p.AllowUnprotectedTxs = f[1] == "1"
		upd := &evmtypes.MsgUpdateParams{Authority: authtypes.NewModuleAddress(govtypes.ModuleName).String(), Params: p}
		sub, err := govv1.NewMsgSubmitProposal([]sdk.Msg{upd}, sdk.NewCoins(sdk.NewCoin(utils.BaseDenom, sdkmath.NewInt(1_000_000))), w.acc(0).String(), "", "unprot", "unprotected transactions")
		if err != nil {
			panic(err)
		}
		id := w.nextProp
		w.nextProp++
		return [][]byte{w.cosmosTx(a, ctx, 0, sub), nil, []byte(fmt.Sprintf("vote:%d", id))}
	case "goverc20":
		// governance switches the ERC20 module off (f[1] = 0) or on
		p := a.Erc20Keeper.GetParams(ctx)
		p.EnableErc20 = f[1] == "1"
		upd := &erc20types.MsgUpdateParams{Authority: authtypes.NewModuleAddress(govtypes.ModuleName).String(), Params: p}
		sub, err := govv1.NewMsgSubmitProposal([]sdk.Msg{upd}, sdk.NewCoins(sdk.NewCoin(utils.BaseDenom, sdkmath.NewInt(1_000_000))), w.acc(0).String(), "", "erc20", "erc20 switch")
		if err != nil {
			panic(err)
		}
		id := w.nextProp
		w.nextProp++
		return [][]byte{w.cosmosTx(a, ctx, 0, sub), nil, []byte(fmt.Sprintf("vote:%d", id))}
	case "sendm":
		// a bank MsgSend to a module account
		return [][]byte{w.cosmosTx(a, ctx, ki(1), banktypes.NewMsgSend(w.acc(ki(1)), authtypes.NewModuleAddress(f[2]), coin(f[3])))}
	case "govfail":
		// a proposal whose first message changes the EVM chain config (London and the later forks moved out of reach) and
		// whose second message cannot be executed (the governance account has no such funds): the proposal fails as a
		// whole and the stored parameters stay as they were
		p := a.EvmKeeper.GetParams(ctx)
		far := sdkmath.NewInt(1 << 62)
		p.ChainConfig.LondonBlock, p.ChainConfig.ArrowGlacierBlock, p.ChainConfig.GrayGlacierBlock = &far, &far, &far
		p.ChainConfig.MergeNetsplitBlock, p.ChainConfig.ShanghaiBlock, p.ChainConfig.CancunBlock = &far, &far, &far
		gov := authtypes.NewModuleAddress(govtypes.ModuleName)
		upd := &evmtypes.MsgUpdateParams{Authority: gov.String(), Params: p}
		bad := banktypes.NewMsgSend(gov, w.acc(0), sdk.NewCoins(sdk.NewCoin(utils.BaseDenom, sdkmath.NewIntWithDecimal(1, 30))))
		sub, err := govv1.NewMsgSubmitProposal([]sdk.Msg{upd, bad}, sdk.NewCoins(sdk.NewCoin(utils.BaseDenom, sdkmath.NewInt(1_000_000))), w.acc(0).String(), "", "fail", "a proposal that fails half way")
		if err != nil {
			panic(err)
		}
		id := w.nextProp
		w.nextProp++
		return [][]byte{w.cosmosTx(a, ctx, 0, sub), nil, []byte(fmt.Sprintf("vote:%d", id))}
	case "govveto2":
		// a proposal deposited in two denominations and rejected with veto: the deposit is burned, which Haqq's bank keeper
		// turns into a payment to the community pool — of both denominations
		msg := banktypes.NewMsgSend(authtypes.NewModuleAddress(govtypes.ModuleName), w.acc(0), sdk.NewCoins(sdk.NewCoin(utils.BaseDenom, sdkmath.NewInt(1))))
		dep := sdk.NewCoins(sdk.NewCoin(utils.BaseDenom, sdkmath.NewInt(1_000_000+int64(vmIdx(f[1])))), sdk.NewCoin(nodeSecondDenom, sdkmath.NewInt(777+int64(vmIdx(f[1])))))
		sub, err := govv1.NewMsgSubmitProposal([]sdk.Msg{msg}, dep, w.acc(0).String(), "", "veto", "a proposal that gets vetoed")
		if err != nil {
			panic(err)
		}
		id := w.nextProp
		w.nextProp++
		return [][]byte{w.cosmosTx(a, ctx, 0, sub), nil, []byte(fmt.Sprintf("veto:%d", id))}
	case "efcode":
		// CREATE of a contract whose runtime code starts with 0xEF: refused from London on (EIP-3541), deployed before
		return [][]byte{w.ethTx(a, ctx, ki(1), nil, nil, common.FromHex("0x60ef60005360016000f3"), 200_000, 0)}
	case "pc":
		to := common.HexToAddress(nodePCAddr(f[2]))
		var in []byte
		if f[2] == "bech32" {
			bp, _ := bech32.NewPrecompile(6000)
			in, _ = bp.Pack(bech32.HexToBech32Method, w.eth(ki(1)), "haqq")
		} else {
			in = make([]byte, 160)
		}
		return [][]byte{w.ethTx(a, ctx, ki(1), &to, nil, in, 100_000, 0)}
	}
	panic("unknown tx token " + tok)
}

func nodePCAddr(name string) string {
	if name == "bech32" {
		return nodeBech32Addr
	}
	return p256.PrecompileAddress
}

// ---- generator ----

func nodeGen(r *rand.Rand, tier string, prop string) []Case {
	n, blocks := 12, 12
	if tier == "thorough" {
		n, blocks = 150, 24
	}
	var out []Case
	for i := 0; i < n; i++ {
		wseed := r.Intn(1_000_000)
		if i == 0 {
			// the first world of every run has both special flavours whatever the seed: a few blocks from the coinomics cap
			// (wseed % 5 == 0) and unprotected transactions allowed at genesis (wseed % 3 == 1)
			wseed = wseed - wseed%15 + 10
		}
		c := Case{fmt.Sprintf("world # seed=%d", wseed)}
		c = append(c, "blk # dt=6 txs=deploy.0|eth.1.5|bhdeploy.1")
		c = append(c, "blk # dt=6 txs=fundpup.0.1000000000000000|approve.1|approve.2|pcdeleg2.0.0|pcdeleg2.4.0|pcsel.1.staking|pcsel.2.distribution|pcsel.3.staking|mdeleg.3.100000000000000000|mdeleg.1.100000000000000000|mdeleg.2.100000000000000000")
		c = append(c, "blk # dt=6 txs=vests.4.2.30000000000000000000|vest.4.5.9000000000000000000000|vestc.4.3.50000000000000000|bhdeploy.3|bhash.1.1|codeless.2|mdeleg2.1.300000000000000000|mdeleg2.3.200000000000000000")
		if prop == "C15" {
			// a contract that ignores failures forwards a delegation of more than the origin holds: the call fails inside the
			// staking message (after the distribution hook has run) — nothing of it may stay
			c = append(c, "blk # dt=6 txs=send.2.3.7", "blk # dt=6 txs=pup.1.0.d:999999999999999999999999")
		}
		if prop == "C19" && wseed%5 == 0 {
			// the world that reaches the coinomics cap: exported after every one of the next blocks (one of them is the
			// block in which minting switches itself off)
			for b := 0; b < 8; b++ {
				c = append(c, fmt.Sprintf("blk # dt=6 txs=send.%d.%d.%d", b%nodeKeys, (b+1)%nodeKeys, 1000+b), "export")
			}
		}
		var liqTo []int
		// one C19 world in three has no liquid denomination left at export: the only one is redeemed in full
		noLiq := prop == "C19" && i%3 == 0
		if prop == "C19" && !noLiq {
			// a liquid denomination whose schedule starts with an empty period
			c = append(c, "blk # dt=6 txs=vestt.4.1.3000000000000000000000|liq.1.3.1000000000000000000000")
			liqTo = append(liqTo, 3)
		}
		swapAt := 2 + r.Intn(blocks-6)
		// two worlds in three: the second validator is caught double-signing at some block (slashed, jailed, tombstoned;
		// its delegations, unbonding entries and redelegations are slashed and the slashed coins redirected)
		evidAt := -1
		if r.Intn(3) > 0 {
			evidAt = 4 + r.Intn(blocks-6)
		}
		swapped := "bech32" // the extension that is inactive
		for b := 2; b < blocks; b++ {
			var txs []string
			nt := r.Intn(5)
			for j := 0; j < nt; j++ {
				k := r.Intn(nodeKeys)
				x := r.Intn(18)
				if x >= 16 {
					x = 10 // the vesting / liquid / DAO group twice as often
				}
				switch {
				case x >= 14:
					txs = append(txs, fmt.Sprintf("dao.%d.%d", k, 1+r.Intn(1_000_000)))
				case x < 2:
					if r.Intn(3) == 0 {
						m := pick(r, []string{"not_bonded_tokens_pool", "bonded_tokens_pool", "distribution", "fee_collector", "gov"})
						txs = append(txs, fmt.Sprintf("sendm.%d.%s.%d", k, m, 1+r.Intn(1_000_000)))
					} else {
						txs = append(txs, fmt.Sprintf("send.%d.%d.%d", k, r.Intn(nodeKeys+3), 1+r.Intn(1_000_000)))
					}
				case x < 4:
					if r.Intn(4) == 0 {
						m := pick(r, []string{"not_bonded_tokens_pool", "bonded_tokens_pool", "distribution", "fee_collector", "gov", "evm"})
						txs = append(txs, fmt.Sprintf("ethm.%d.%s.%d", k, m, 1+r.Intn(1_000_000)))
					} else {
						txs = append(txs, fmt.Sprintf("eth.%d.%d", k, 1+r.Intn(1_000_000)))
					}
				case x < 7:
					// a puppet transaction that pays several new accounts (several dirty new accounts in one Commit)
					var s []string
					for m := 0; m < 2+r.Intn(3); m++ {
						s = append(s, fmt.Sprintf("P:%d", 1+r.Intn(1000)), fmt.Sprintf("S:%d:%d", r.Intn(3), 1+r.Intn(6)))
					}
					if r.Intn(3) == 0 {
						s = append(s, fmt.Sprintf("G:%d", 1000+r.Intn(100000)))
					}
					if r.Intn(3) == 0 {
						s = append(s, "[", fmt.Sprintf("P:%d", 1+r.Intn(1000)), "S:1:3", "]R")
					}
					if r.Intn(6) == 0 {
						// touch a module account, then have a precompile move coins into or out of it in the same transaction
						m := pick(r, []string{"not_bonded_tokens_pool", "bonded_tokens_pool", "distribution"})
						s = append(s, "Z:"+m, fmt.Sprintf("U:%d", 1000+r.Intn(50000)), fmt.Sprintf("G:%d", 1000+r.Intn(50000)))
						if r.Intn(2) == 0 {
							// … and then pay the same module account a little: its cached object, loaded before the precompile
							// moved the bank balance, becomes dirty
							s = append(s, fmt.Sprintf("z:%s:%d", m, 1+r.Intn(9)))
						}
					}
					if r.Intn(3) == 0 {
						s = append(s, "Z:"+pick(r, []string{"not_bonded_tokens_pool", "bonded_tokens_pool", "distribution", "fee_collector", "gov", "erc20", "coinomics"}))
					}
					if r.Intn(3) == 0 {
						s = append(s, fmt.Sprintf("D:%d", 100000+r.Intn(100000)), fmt.Sprintf("U:%d", 1000+r.Intn(50000)))
					}
					txs = append(txs, fmt.Sprintf("pup.%d.%d.%s", 1+r.Intn(2), r.Intn(5000), strings.Join(s, ",")))
				case x < 8:
					txs = append(txs, fmt.Sprintf("deleg.%d.%d", k, 1000+r.Intn(1_000_000)))
				case x < 9:
					switch r.Intn(4) {
					case 0:
						txs = append(txs, fmt.Sprintf("mdeleg2.%d.%d", k, 1000+r.Intn(1_000_000)))
					case 1:
						txs = append(txs, fmt.Sprintf("mundeleg2.%d.%d", pick(r, []int{1, 3}), 1000+r.Intn(1_000_000)))
					case 2:
						txs = append(txs, fmt.Sprintf("mredel2.%d.%d", pick(r, []int{1, 3}), 1000+r.Intn(1_000_000)))
					default:
						txs = append(txs, fmt.Sprintf("mdeleg.%d.%d", k, 1000+r.Intn(1_000_000)))
					}
				case x < 10:
					txs = append(txs, fmt.Sprintf("mundeleg.3.%d", 1000+r.Intn(1_000_000)))
				case x < 11 && noLiq:
					txs = append(txs, fmt.Sprintf("dao.%d.%d", k, 1+r.Intn(1_000_000)))
				case x < 11:
					switch r.Intn(6) {
					case 4, 5:
						if len(liqTo) < 3 {
							to := r.Intn(nodeKeys)
							txs = append(txs, fmt.Sprintf("liq.5.%d.%d000000000000000000", to, 1000+r.Intn(500)))
							liqTo = append(liqTo, to)
						}
					case 0:
						txs = append(txs, fmt.Sprintf("daoxfer.%d.%d", k, r.Intn(nodeKeys)))
					case 1:
						if len(liqTo) < 3 {
							to := r.Intn(nodeKeys)
							txs = append(txs, fmt.Sprintf("liq.5.%d.%d000000000000000000", to, 1000+r.Intn(500)))
							liqTo = append(liqTo, to)
						} else {
							d := r.Intn(len(liqTo))
							txs = append(txs, fmt.Sprintf("daoliq.%d.%d.%d000000000000000", liqTo[d], d, 1+r.Intn(900000)))
						}
					case 2:
						if len(liqTo) > 0 && r.Intn(2) == 0 {
							d := r.Intn(len(liqTo))
							txs = append(txs, fmt.Sprintf("cvt.%d.%d.%d000000000000000", liqTo[d], d, 900000), fmt.Sprintf("daoliq.%d.%d.%d000000000000000", liqTo[d], d, 1+r.Intn(900000)))
						} else if len(liqTo) > 0 {
							d := r.Intn(len(liqTo))
							txs = append(txs, fmt.Sprintf("redeem.%d.%d.%d.%d000000000000000", liqTo[d], r.Intn(nodeKeys), d, 1+r.Intn(900000)))
						}
					default:
						txs = append(txs, fmt.Sprintf("dao.%d.%d", k, 1+r.Intn(1_000_000)))
					}
				case x < 12:
					if r.Intn(2) == 0 {
						txs = append(txs, fmt.Sprintf("bhash.%d.%d", k, pick(r, []int{0, 1, 2, 3, 4, 5, 8, 12, 300})))
					} else {
						txs = append(txs, fmt.Sprintf("wdr.%d", 3))
					}
				case x < 13:
					txs = append(txs, fmt.Sprintf("pc.%d.%s", k, pick(r, []string{"bech32", "p256"})))
				default:
					txs = append(txs, fmt.Sprintf("badnonce.%d", k))
				}
			}
			if b == swapAt+1 && (prop == "C01" || prop == "C20") {
				txs = append(txs, "govfail")
			}
			if wseed%3 == 1 && (prop == "C01" || prop == "C20") {
				// the world that starts with unprotected transactions allowed
				switch b {
				case swapAt - 1, swapAt:
					txs = append(txs, fmt.Sprintf("unprot.%d", 1+b%3))
				case swapAt + 1:
					txs = append(txs, "govunprot.0")
				case swapAt + 5, swapAt + 6:
					txs = append(txs, "redeliver")
				}
			}
			if b == swapAt+2 && (prop == "C15" || prop == "C01" || prop == "C19") {
				txs = append(txs, fmt.Sprintf("govveto2.%d", r.Intn(1000)))
			}
			if b == swapAt+1 && prop == "C15" && i%2 == 0 {
				// half of the C15 worlds: governance switches the ERC20 module off
				txs = append(txs, "goverc20.0")
			}
			if b > swapAt+3 && (prop == "C01" || prop == "C20") && r.Intn(2) == 0 {
				txs = append(txs, fmt.Sprintf("efcode.%d", r.Intn(nodeKeys)))
			}
			if b == swapAt {
				// swap: the inactive extension becomes active, the other one of the pair inactive
				other := "p256"
				if swapped == "p256" {
					other = "bech32"
				}
				txs = append(txs, fmt.Sprintf("govswap.%s.%s", other, swapped))
				swapped = other
			}
			ev := ""
			if b == evidAt {
				ev = " evid=1"
			}
			c = append(c, fmt.Sprintf("blk # dt=%d%s txs=%s", 4+r.Intn(5), ev, strings.Join(txs, "|")))
			switch prop {
			case "C20":
				if r.Intn(3) == 0 || b == swapAt+2 || b == swapAt+3 || b == swapAt+4 {
					c = append(c, "restart")
				}
			case "C01":
				// a replica that joins later from a copy of the state (state sync / snapshot) instead of from genesis
				if b == swapAt+4 {
					c = append(c, "restart")
				}
			case "C19":
				if r.Intn(5) == 0 {
					c = append(c, "export")
				}
			}
		}
		if prop == "C15" && i%2 == 0 {
			// (the worlds in which governance switched the ERC20 module off) ordinary sends to the module accounts whose
			// balances are tied to records
			c = append(c, "blk # dt=6 txs=sendm.1.bonded_tokens_pool.12345|sendm.2.distribution.777|sendm.3.not_bonded_tokens_pool.5|ethm.0.bonded_tokens_pool.9")
		}
		if prop == "C15" {
			// a module account looked at, then changed by a precompile, then paid, all in one transaction
			c = append(c, "blk # dt=6 txs=pup.1.20.Z:bonded_tokens_pool,G:70000,z:bonded_tokens_pool:1|pup.2.20.Z:not_bonded_tokens_pool,U:3000,z:not_bonded_tokens_pool:2|pup.1.20.Z:distribution,G:500,W,z:distribution:3")
		}
		if prop == "C19" || prop == "C15" {
			// a DAO holder with two denominations: liquidate to key 1, fund the DAO with the liquid and the base denomination
			nl := len(liqTo)
			if nl < 4 && !noLiq {
				c = append(c, "blk # dt=6 txs=liq.5.1.1000000000000000000000")
				c = append(c, fmt.Sprintf("blk # dt=6 txs=cvt.1.%d.9000000000000000000|daoliq.1.%d.5000000000000000000|cvtback.1.%d.1000000000000000000|daoxfer.1.2", nl, nl, nl))
				nl++
			}
			// a liquid denomination redeemed in full: its token pair stays registered but conversion is switched off
			c = append(c, "blk # dt=6 txs=liq.5.2.1000000000000000000000")
			c = append(c, fmt.Sprintf("blk # dt=6 txs=redeem.2.3.%d.1000000000000000000000", nl))
		}
		if prop == "C19" {
			c = append(c, "export")
		}
		// after the history: calls that touch both extensions of the swapped pair
		c = append(c, "blk # dt=6 txs=pc.4.bech32|pc.5.p256|eth.2.7|efcode.3")
		c = append(c, "blk # dt=6 txs=pc.1.p256|pc.2.bech32")
		if i == 0 && (prop == "C01" || prop == "C20") {
			// the first world of every run ends with a liquidation that fails half way, a restart mark, and a liquidation
			// that succeeds: what the failed one did must be gone for the node that never stopped as for the one that
			// starts from the stored state
			c = append(c, "blk # dt=6 txs=liqfail.5.1000000000000000000000", "restart", "blk # dt=6 txs=liq.5.2.1200000000000000000000", "blk # dt=6 txs=send.1.2.5")
		}
		out = append(out, c)
	}
	if prop == "C01" {
		out = append(out, Case{"feewalk"})
		if tier == "thorough" {
			out = append(out, Case{"upgrade175 # holders=400 runs=6"})
		} else {
			out = append(out, Case{"upgrade175 # holders=150 runs=4"})
		}
	}
	return out
}

// ---- executor shared by C01 / C20 (C19 and C15 hook in through the callbacks) ----

type nodeRun struct {
	w        *nodeWorld
	a        *app.Haqq
	dbA      dbm.DB
	blocks   []nodeBlock
	results  []nodeBlockResult
	restarts []nodeRestart
	pendVote []uint64
	pendVeto []uint64
	// the active EVM extensions after the last block (to notice that the governance change really executed)
	lastActive string
}

type nodeRestart struct {
	after int // number of blocks committed
	db    dbm.DB
	hash  string
	rpc   []string // what the node that never stopped answered to the queries of nodeRPCDigest at this block boundary
}

// nodeRPCDigest asks the node, through the ABCI Query route the gRPC gateway and the JSON-RPC server use, what an
// operator's tools ask between two blocks: eth_call of code that reads the chain id, the block number and a block
// hash, eth_estimateGas of a transfer, the EVM and fee-market parameters, the base fee, a balance.  The block proposer
// is named in the request, as the node's own JSON-RPC server does: between start-up and its first commit baseapp's
// query context carries an empty block header (no proposer, zero time) — SDK behaviour outside Haqq's code, so
// nothing here reads the header's proposer or time; the chain id is left to the node (request field 0).
func nodeRPCDigest(w *nodeWorld, a *app.Haqq) []string {
	var out []string
	ask := func(name, path string, req interface{ Marshal() ([]byte, error) }) {
		bz, err := req.Marshal()
		if err != nil {
			panic(err)
		}
		func() {
			defer func() {
				if r := recover(); r != nil {
					out = append(out, fmt.Sprintf("%s: panic %v", name, r))
				}
			}()
			res := a.Query(abci.RequestQuery{Path: path, Data: bz})
			h := sha256.Sum256(res.Value)
			out = append(out, fmt.Sprintf("%s: code=%d value=%x", name, res.Code, h[:8]))
		}()
	}
	call := func(code string) []byte {
		data := hexutil.Bytes(common.FromHex(code))
		from := w.eth(0)
		bz, err := json.Marshal(evmtypes.TransactionArgs{From: &from, Data: &data})
		if err != nil {
			panic(err)
		}
		return bz
	}
	// CHAINID / NUMBER / BLOCKHASH(NUMBER-1), each returned as one word
	ask("eth_call chainid", "/ethermint.evm.v1.Query/EthCall", &evmtypes.EthCallRequest{Args: call("0x4660005260206000f3"), GasCap: 1_000_000, ProposerAddress: w.proposer})
	ask("eth_call number", "/ethermint.evm.v1.Query/EthCall", &evmtypes.EthCallRequest{Args: call("0x4360005260206000f3"), GasCap: 1_000_000, ProposerAddress: w.proposer})
	ask("eth_call blockhash", "/ethermint.evm.v1.Query/EthCall", &evmtypes.EthCallRequest{Args: call("0x600143034060005260206000f3"), GasCap: 1_000_000, ProposerAddress: w.proposer})
	to := w.eth(1)
	val := hexutil.Big(*big.NewInt(5))
	from := w.eth(0)
	est, _ := json.Marshal(evmtypes.TransactionArgs{From: &from, To: &to, Value: &val})
	ask("eth_estimateGas", "/ethermint.evm.v1.Query/EstimateGas", &evmtypes.EthCallRequest{Args: est, GasCap: 1_000_000, ProposerAddress: w.proposer})
	ask("evm params", "/ethermint.evm.v1.Query/Params", &evmtypes.QueryParamsRequest{})
	ask("base fee", "/ethermint.evm.v1.Query/BaseFee", &evmtypes.QueryBaseFeeRequest{})
	ask("evm balance", "/ethermint.evm.v1.Query/Balance", &evmtypes.QueryBalanceRequest{Address: w.eth(2).Hex()})
	ask("bank balance", "/cosmos.bank.v1beta1.Query/Balance", &banktypes.QueryBalanceRequest{Address: w.acc(2).String(), Denom: utils.BaseDenom})
	return out
}

// nodeExecHistory runs the case on node A; afterBlock (optional) is called after each committed block,
// atMark for the "restart" / "export" marks.
func nodeExecHistory(c Case, afterBlock func(*nodeRun, int), atMark func(*nodeRun, string, int)) (run *nodeRun, outs []string, tags []string) {
	run = &nodeRun{}
	for i, line := range c {
		f := strings.Fields(line)
		kv := vmKV(f)
		switch f[0] {
		case "world":
			run.w = newNodeWorld(int64(vmIdx(kv["seed"])))
			run.dbA = dbm.NewMemDB()
			run.a = nodeNewApp(run.dbA)
			run.w.initChain(run.a)
			run.a.Commit()
			outs = append(outs, "ok")
		case "blk":
			w, a := run.w, run.a
			h := int64(len(run.blocks) + 2)
			var prev time.Time
			if len(run.blocks) == 0 {
				prev = w.genesisTime
			} else {
				prev = run.blocks[len(run.blocks)-1].time
			}
			b := nodeBlock{height: h, time: prev.Add(time.Duration(vmIdx(kv["dt"])) * time.Second), val2Votes: !w.val2Out, evidence: kv["evid"] == "1" && !w.val2Out}
			if b.evidence {
				w.val2Out = true
				tags = append(tags, "double-sign-evidence")
			}
			ctx := w.begin(a, b)
			var res nodeBlockResult
			deliver := func(bz []byte) abci.ResponseDeliverTx {
				r := a.DeliverTx(abci.RequestDeliverTx{Tx: bz})
				b.txs = append(b.txs, bz)
				res.txs = append(res.txs, canonTx(r))
				if r.Code == 0 {
					tags = append(tags, "tx-ok")
				} else {
					tags = append(tags, "tx-rejected")
				}
				return r
			}
			// votes for proposals submitted in the previous block
			for _, id := range run.pendVote {
				deliver(w.cosmosTx(a, ctx, 0, govv1.NewMsgVote(w.acc(0), id, govv1.VoteOption_VOTE_OPTION_YES, "")))
				tags = append(tags, "gov-vote")
			}
			run.pendVote = nil
			for _, id := range run.pendVeto {
				deliver(w.cosmosTx(a, ctx, 0, govv1.NewMsgVote(w.acc(0), id, govv1.VoteOption_VOTE_OPTION_NO_WITH_VETO, "")))
				tags = append(tags, "gov-veto")
			}
			run.pendVeto = nil
			var codes []string
			if kv["txs"] != "" {
				for _, tok := range strings.Split(kv["txs"], "|") {
					if strings.HasPrefix(tok, "pup.") && (w.puppet == common.Address{}) {
						continue
					}
					for _, bz := range w.buildTxs(a, ctx, tok) {
						if bz == nil {
							continue
						}
						if strings.HasPrefix(string(bz), "again:") {
							for _, bz2 := range w.buildTxs(a, ctx, strings.TrimPrefix(string(bz), "again:")) {
								deliver(bz2)
							}
							continue
						}
						if strings.HasPrefix(string(bz), "vote:") {
							run.pendVote = append(run.pendVote, uint64(vmIdx(strings.TrimPrefix(string(bz), "vote:"))))
							continue
						}
						if strings.HasPrefix(string(bz), "veto:") {
							run.pendVeto = append(run.pendVeto, uint64(vmIdx(strings.TrimPrefix(string(bz), "veto:"))))
							continue
						}
						r := deliver(bz)
						if os.Getenv("NODE_DEBUG") != "" {
							vm := ""
							if txr, e := evmtypes.DecodeTxResponse(r.Data); e == nil {
								vm = txr.VmError
							}
							fmt.Fprintf(os.Stderr, "h=%d %s code=%d vm=%q log=%.150s\n", h, tok, r.Code, vm, r.Log)
						}
						codes = append(codes, fmt.Sprint(r.Code))
						tags = append(tags, "tx:"+strings.SplitN(tok, ".", 2)[0])
					}
				}
			}
			res.end, res.appHash = w.end(a, b)
			if ap := strings.Join(a.EvmKeeper.GetParams(a.BaseApp.NewContext(true, testutil.NewHeader(b.height, b.time, nodeChainID, w.proposer, nil, nil))).ActivePrecompiles, ","); ap != run.lastActive {
				if run.lastActive != "" {
					tags = append(tags, "evm-params-changed")
				}
				run.lastActive = ap
			}
			run.blocks = append(run.blocks, b)
			run.results = append(run.results, res)
			outs = append(outs, fmt.Sprintf("h=%d codes=%s", h, strings.Join(codes, ",")))
			if afterBlock != nil {
				afterBlock(run, i)
			}
		case "restart", "export":
			if atMark != nil {
				atMark(run, f[0], i)
			}
			outs = append(outs, "ok")
		default:
			outs = append(outs, "bad-op")
		}
	}
	return
}

func c01Exec(c Case) (outs []string, fails []Failure, tags []string) {
	if len(c) == 1 && strings.HasPrefix(c[0], "feewalk") {
		// the per-block arithmetic that runs on every node in every block (base fee update) at its corners — tiny base
		// fees, steps that round to zero, blocks above and below the target; whether a shared constant was written
		// through is judged after the case (process-global-constant-overwritten)
		nw, _ := fixture()
		k := nw.App.FeeMarketKeeper
		for _, bf := range []int64{0, 1, 7, 8, 1_000_000_000} {
			for _, g := range []uint64{0, 99_999, 100_000, 100_001, 150_000, 400_000} {
				ctx, _ := nw.GetContext().CacheContext()
				p := k.GetParams(ctx)
				p.NoBaseFee, p.EnableHeight, p.BaseFee = false, 0, sdkmath.NewInt(bf)
				p.ElasticityMultiplier, p.BaseFeeChangeDenominator, p.MinGasPrice = 2, 8, sdk.ZeroDec()
				if err := k.SetParams(ctx, p); err != nil {
					panic(err)
				}
				ctx = ctx.WithBlockHeight(10).WithConsensusParams(&tmproto.ConsensusParams{Block: &tmproto.BlockParams{MaxGas: 200_000, MaxBytes: 10}})
				k.SetBlockGasWanted(ctx, g)
				_ = k.CalculateBaseFee(ctx)
			}
		}
		return []string{"ok"}, nil, []string{"fee-arithmetic-walk", "replica-compared", "tx:pup"}
	}
	if len(c) == 1 && strings.HasPrefix(c[0], "upgrade175") {
		// the v1.7.5 upgrade handler (goroutine workers) on several forks of one state: the outcome must not depend on scheduling
		kv := vmKV(strings.Fields(c[0]))
		seen := UpgradeHandlerOutcomes(func(string, ...interface{}) {}, vmIdx(kv["holders"]), vmIdx(kv["runs"]))
		tags = append(tags, "upgrade-handler-compared", "replica-compared", "tx:pup")
		if len(seen) != 1 {
			var ks []string
			for k, v := range seen {
				ks = append(ks, fmt.Sprintf("%d run(s): %s", v, k))
			}
			sort.Strings(ks)
			fails = append(fails, Failure{Signature: "C01:upgrade-handler-nondeterministic", What: "TurnOffLiquidVesting (v1.7.5 upgrade) run on forks of one state gives different results:\n  " + strings.Join(ks, "\n  "), Case: c})
		}
		return []string{"ok"}, fails, tags
	}
	run, outs, tags := nodeExecHistory(c, nil, func(run *nodeRun, what string, i int) {
		if what == "restart" {
			run.restarts = append(run.restarts, nodeRestart{after: len(run.blocks), db: nodeCopyDB(run.dbA), hash: hex.EncodeToString(run.a.LastCommitID().Hash)})
		}
	})
	if run.w == nil || len(run.blocks) == 0 {
		return
	}
	for _, rs := range run.restarts {
		late := nodeNewApp(rs.db)
		_ = late.Info(abci.RequestInfo{})
		tags = append(tags, "late-replica-compared")
		if d := diffBlocks(run.results[rs.after:], run.w.replay(late, run.blocks[rs.after:]), int64(rs.after+2)); len(d) > 0 {
			fails = append(fails, Failure{Signature: "C01:late-replica-diverges", What: fmt.Sprintf("a replica that joined from a copy of the state after block %d disagrees with the one that ran from genesis:\n  %s", rs.after+1, strings.Join(d, "\n  ")), Case: c})
			return
		}
	}
	// a second, independently constructed replica (built after the first one has run), same genesis, same blocks —
	// on a host in another time zone (the worlds start at New Year of a leap year, where the civil year of a block
	// time differs between zones)
	savedLocal := time.Local
	time.Local = time.FixedZone("replica", -12*3600)
	if run.w.seed%2 == 1 {
		time.Local = time.FixedZone("replica", 14*3600)
	}
	b := nodeNewAppOtherOperator(dbm.NewMemDB())
	run.w.initChain(b)
	b.Commit()
	got := run.w.replay(b, run.blocks)
	time.Local = savedLocal
	tags = append(tags, "replica-compared", "replica-in-other-time-zone", "replica-with-other-app-toml")
	if d := diffBlocks(run.results, got, 2); len(d) > 0 {
		fails = append(fails, Failure{Signature: "C01:replicas-diverge", What: "two replicas fed the same blocks disagree:\n  " + strings.Join(d, "\n  "), Case: c})
	}
	return
}

func c20Exec(c Case) (outs []string, fails []Failure, tags []string) {
	mark := func(run *nodeRun, what string, i int) {
		if what == "restart" {
			run.restarts = append(run.restarts, nodeRestart{after: len(run.blocks), db: nodeCopyDB(run.dbA), hash: hex.EncodeToString(run.a.LastCommitID().Hash), rpc: nodeRPCDigest(run.w, run.a)})
		}
	}
	run, outs, tags := nodeExecHistory(c, nil, mark)
	if run.w == nil {
		return
	}
	for _, rs := range run.restarts {
		// the restarted node: a fresh application over a copy of the database as it was at that block boundary
		b := nodeNewApp(rs.db)
		info := b.Info(abci.RequestInfo{})
		tags = append(tags, "restart-compared")
		var d []string
		if info.LastBlockHeight != int64(rs.after+1) {
			d = append(d, fmt.Sprintf("start-up height %d, the stopped node had committed %d", info.LastBlockHeight, rs.after+1))
		}
		if hex.EncodeToString(info.LastBlockAppHash) != rs.hash {
			d = append(d, "start-up app hash differs from the hash the stopped node committed")
		}
		// queries answered between start-up and the first block
		for j, got := range nodeRPCDigest(run.w, b) {
			if j < len(rs.rpc) && got != rs.rpc[j] {
				d = append(d, fmt.Sprintf("query answered differently: restarted node %q, node that never stopped %q", got, rs.rpc[j]))
			}
		}
		tags = append(tags, "restart-queries-compared")
		got := run.w.replay(b, run.blocks[rs.after:])
		d = append(d, diffBlocks(run.results[rs.after:], got, int64(rs.after+2))...)
		if len(d) > 0 {
			fails = append(fails, Failure{Signature: "C20:restarted-node-diverges", What: fmt.Sprintf("node restarted after block %d vs node that never stopped:\n  %s", rs.after+1, strings.Join(d, "\n  ")), Case: c})
			break
		}
	}
	return
}

// c15Exec: after every block of the history every registered crisis invariant is evaluated on the committed state.
func c15Exec(c Case) (outs []string, fails []Failure, tags []string) {
	var broken []string
	after := func(run *nodeRun, i int) {
		if len(broken) > 0 {
			return
		}
		b := run.blocks[len(run.blocks)-1]
		header := testutil.NewHeader(b.height, b.time, nodeChainID, run.w.proposer, run.a.LastCommitID().Hash, run.w.valSet.Hash())
		ctx := run.a.BaseApp.NewContext(true, header)
		if os.Getenv("NODE_DEBUG") != "" {
			for _, d := range run.a.StakingKeeper.GetAllDelegations(ctx) {
				if b.height == 3 && d.DelegatorAddress == run.w.acc(0).String() {
					fmt.Fprintln(os.Stderr, "h3 key0 delegation", d.ValidatorAddress, d.Shares)
				}
				if d.Shares.IsZero() {
					fmt.Fprintln(os.Stderr, "h", b.height, "zero-share delegation", d.DelegatorAddress, d.ValidatorAddress)
				}
			}
		}
		for _, r := range run.a.CrisisKeeper.Routes() {
			func() {
				defer func() {
					if p := recover(); p != nil {
						broken = append(broken, fmt.Sprintf("after block %d (op line %d) invariant %s cannot be evaluated, it panics: %v", b.height, i, r.FullRoute(), p))
					}
				}()
				if msg, bad := r.Invar(ctx); bad {
					broken = append(broken, fmt.Sprintf("after block %d (op line %d) invariant %s is broken: %s", b.height, i, r.FullRoute(), strings.TrimSpace(msg)))
				}
			}()
		}
	}
	_, outs, tags = nodeExecHistory(c, after, nil)
	tags = append(tags, "invariants-evaluated")
	if len(broken) > 0 {
		fails = append(fails, Failure{Signature: "C15:invariant-broken", What: strings.Join(broken, "\n"), Case: c})
	}
	return
}

// c19Exec: at every "export" mark the application state is exported, a fresh application is initialised from
// the export, and its own export is compared with the first one, module by module.
func c19Exec(c Case) (outs []string, fails []Failure, tags []string) {
	var diffs []string
	mark := func(run *nodeRun, what string, i int) {
		if what != "export" || len(diffs) > 0 {
			return
		}
		exp1, err := run.a.ExportAppStateAndValidators(false, nil, nil)
		if err != nil {
			diffs = append(diffs, "export failed: "+err.Error())
			return
		}
		b := nodeNewApp(dbm.NewMemDB())
		var last time.Time
		if len(run.blocks) > 0 {
			last = run.blocks[len(run.blocks)-1].time
		} else {
			last = run.w.genesisTime
		}
		func() {
			defer func() {
				if r := recover(); r != nil {
					diffs = append(diffs, fmt.Sprintf("InitChain from the export panics: %v", r))
				}
			}()
			b.InitChain(abci.RequestInitChain{Time: last, ChainId: nodeChainID, Validators: []abci.ValidatorUpdate{},
				ConsensusParams: app.DefaultConsensusParams, AppStateBytes: exp1.AppState, InitialHeight: exp1.Height})
			b.Commit()
		}()
		if len(diffs) > 0 {
			return
		}
		exp2, err := b.ExportAppStateAndValidators(false, nil, nil)
		if err != nil {
			diffs = append(diffs, "second export failed: "+err.Error())
			return
		}
		tags = append(tags, "export-compared")
		// the same reads through the keepers on both applications
		q1, q2 := nodeQueryDigest(run.w, run.a, last), nodeQueryDigest(run.w, b, last)
		for i := range q1 {
			if i < len(q2) && q1[i] != q2[i] {
				diffs = append(diffs, fmt.Sprintf("after block %d, query %s  vs  %s", len(run.blocks)+1, q1[i], q2[i]))
				if len(diffs) > 3 {
					break
				}
			}
		}
		// the raw key/value content of the Haqq modules' stores on both applications
		for _, name := range []string{"evm", "erc20", "liquidvesting", "ucdao", "coinomics", "epochs", "feemarket", "bank", "acc", "authz"} {
			k1, k2 := run.a.GetKey(name), b.GetKey(name)
			if k1 == nil || k2 == nil {
				tags = append(tags, "store-missing:"+name)
				continue
			}
			tags = append(tags, "store-compared:"+name)
			h1 := testutil.NewHeader(run.a.LastBlockHeight(), last, nodeChainID, run.w.proposer, nil, nil)
			m1, m2 := nodeStoreMap(run.a.BaseApp.NewContext(true, h1), k1), nodeStoreMap(b.BaseApp.NewContext(true, h1), k2)
			if name == "coinomics" {
				// PrevBlockTS: the getter reads an absent key as 0, the end-blocker stores "0" when minting is off and the
				// import writes positive values only — a stored zero and an absent key are the same state
				for _, m := range []map[string]string{m1, m2} {
					if m["\x01"] == "0" {
						delete(m, "\x01")
					}
				}
			}
			n := 0
			for k, v := range m1 {
				if v2, ok := m2[k]; !ok || v2 != v {
					if n < 3 {
						diffs = append(diffs, fmt.Sprintf("after block %d, store %s key %x: %x on the exporting chain, %x after re-import", len(run.blocks)+1, name, k, trunc([]byte(v)), trunc([]byte(v2))))
					}
					n++
				}
			}
			for k, v2 := range m2 {
				if _, ok := m1[k]; !ok && n < 3 {
					diffs = append(diffs, fmt.Sprintf("after block %d, store %s key %x exists only after re-import (%x)", len(run.blocks)+1, name, k, trunc([]byte(v2))))
					n++
				}
			}
		}
		var g1, g2 map[string]json.RawMessage
		_ = json.Unmarshal(exp1.AppState, &g1)
		_ = json.Unmarshal(exp2.AppState, &g2)
		var mods []string
		for m := range g1 {
			mods = append(mods, m)
		}
		sort.Strings(mods)
		for _, m := range mods {
			if !c19Compared[m] {
				continue
			}
			if d := jsonDiff(m, g1[m], g2[m]); len(d) > 0 {
				diffs = append(diffs, fmt.Sprintf("after block %d, module %s: %s", len(run.blocks)+1, m, strings.Join(d, "; ")))
			}
		}
	}
	_, outs, tags2 := nodeExecHistory(c, nil, mark)
	tags = append(tags, tags2...)
	if len(diffs) > 0 {
		sig := "C19:export-import-export-differs"
		if len(diffs) == 1 && strings.Contains(diffs[0], "module epochs") && strings.Contains(diffs[0], "current_epoch_start_height") {
			sig = "C19:epochs:current_epoch_start_height-replaced-by-import-height"
		}
		fails = append(fails, Failure{Signature: sig, What: strings.Join(diffs, "\n"), Case: c})
	}
	return
}

func nodeStoreMap(ctx sdk.Context, key storetypes.StoreKey) map[string]string {
	m := map[string]string{}
	it := ctx.KVStore(key).Iterator(nil, nil)
	defer it.Close()
	for ; it.Valid(); it.Next() {
		m[string(it.Key())] = string(it.Value())
	}
	return m
}

// nodeQueryDigest reads the state of Haqq's modules through their keepers (what the gRPC queries serve).
func nodeQueryDigest(w *nodeWorld, a *app.Haqq, t time.Time) []string {
	header := testutil.NewHeader(a.LastBlockHeight(), t, nodeChainID, w.proposer, a.LastCommitID().Hash, w.valSet.Hash())
	ctx := a.BaseApp.NewContext(true, header)
	var out []string
	add := func(k string, v interface{}) { out = append(out, fmt.Sprintf("%s=%v", k, v)) }
	addrs := []common.Address{w.puppet}
	for i := range w.keys {
		addrs = append(addrs, w.eth(i))
	}
	for i, ad := range addrs {
		acc := sdk.AccAddress(ad.Bytes())
		add(fmt.Sprintf("acct%d.bank", i), a.BankKeeper.GetAllBalances(ctx, acc))
		add(fmt.Sprintf("acct%d.locked", i), a.BankKeeper.LockedCoins(ctx, acc))
		add(fmt.Sprintf("acct%d.spendable", i), a.BankKeeper.SpendableCoins(ctx, acc))
		add(fmt.Sprintf("acct%d.nonce", i), a.EvmKeeper.GetNonce(ctx, ad))
		add(fmt.Sprintf("acct%d.evmbalance", i), a.EvmKeeper.GetBalance(ctx, ad))
		if ea := a.EvmKeeper.GetAccountWithoutBalance(ctx, ad); ea != nil {
			add(fmt.Sprintf("acct%d.codehash", i), common.BytesToHash(ea.CodeHash))
		}
		add(fmt.Sprintf("acct%d.bonded", i), a.StakingKeeper.GetDelegatorBonded(ctx, acc))
		add(fmt.Sprintf("acct%d.dao", i), a.DaoKeeper.GetAccountBalances(ctx, acc))
		if va, ok := a.AccountKeeper.GetAccount(ctx, acc).(*vestingtypes.ClawbackVestingAccount); ok {
			add(fmt.Sprintf("acct%d.vesting", i), fmt.Sprintf("%s/%d/%d/%v/%v/%v", va.FunderAddress, va.GetStartTime(), va.EndTime, va.OriginalVesting, va.LockupPeriods, va.VestingPeriods))
		}
	}
	for k := 0; k < 3; k++ {
		add(fmt.Sprintf("puppet.slot%d", k), a.EvmKeeper.GetState(ctx, w.puppet, common.BigToHash(big.NewInt(int64(k)))))
	}
	for i, ad := range w.codeless {
		for k := 0; k < 2; k++ {
			add(fmt.Sprintf("codeless%d.slot%d", i, k), a.EvmKeeper.GetState(ctx, ad, common.BigToHash(big.NewInt(int64(k)))))
		}
	}
	add("evm.params", a.EvmKeeper.GetParams(ctx))
	add("feemarket.params", a.FeeMarketKeeper.GetParams(ctx))
	add("feemarket.basefee", a.FeeMarketKeeper.GetBaseFee(ctx))
	add("feemarket.blockgas", a.FeeMarketKeeper.GetBlockGasWanted(ctx))
	add("erc20.params", a.Erc20Keeper.GetParams(ctx))
	for _, tp := range a.Erc20Keeper.GetTokenPairs(ctx) {
		add("erc20.pair", tp.String())
		if ea := a.EvmKeeper.GetAccountWithoutBalance(ctx, tp.GetERC20Contract()); ea != nil {
			add("erc20.pair.code", len(a.EvmKeeper.GetCode(ctx, common.BytesToHash(ea.CodeHash))))
		}
	}
	add("liquidvesting.params", a.LiquidVestingKeeper.GetParams(ctx))
	add("liquidvesting.counter", a.LiquidVestingKeeper.GetDenomCounter(ctx))
	for _, d := range a.LiquidVestingKeeper.GetAllDenoms(ctx) {
		add("liquidvesting.denom", d.String())
	}
	if pr, err := a.DaoKeeper.Params(ctx, &ucdaotypes.QueryParamsRequest{}); err == nil {
		add("dao.params", pr.String())
	}
	add("dao.total", a.DaoKeeper.GetTotalBalance(ctx))
	add("dao.balances", a.DaoKeeper.GetAccountsBalances(ctx))
	add("coinomics.params", a.CoinomicsKeeper.GetParams(ctx))
	add("coinomics.prevts", a.CoinomicsKeeper.GetPrevBlockTS(ctx))
	add("coinomics.maxsupply", a.CoinomicsKeeper.GetMaxSupply(ctx))
	for _, e := range a.EpochsKeeper.AllEpochInfos(ctx) {
		add("epochs.info", e.String())
	}
	add("bank.supply", a.BankKeeper.GetSupply(ctx, utils.BaseDenom))
	return out
}

// modules whose exported state is compared: Haqq's own modules and the account / bank state they own
var c19Compared = map[string]bool{"evm": true, "feemarket": true, "erc20": true, "vesting": true, "liquidvesting": true, "ucdao": true,
	"dao": true, "coinomics": true, "epochs": true, "auth": true, "bank": true}

// jsonDiff lists the paths at which two JSON documents differ (at most a few).
func jsonDiff(path string, a, b json.RawMessage) []string {
	var x, y interface{}
	_ = json.Unmarshal(a, &x)
	_ = json.Unmarshal(b, &y)
	var out []string
	var rec func(p string, u, v interface{})
	rec = func(p string, u, v interface{}) {
		if len(out) >= 4 {
			return
		}
		switch ut := u.(type) {
		case map[string]interface{}:
			vt, ok := v.(map[string]interface{})
			if !ok {
				out = append(out, p+": shape differs")
				return
			}
			keys := map[string]bool{}
			for k := range ut {
				keys[k] = true
			}
			for k := range vt {
				keys[k] = true
			}
			var ks []string
			for k := range keys {
				ks = append(ks, k)
			}
			sort.Strings(ks)
			for _, k := range ks {
				rec(p+"."+k, ut[k], vt[k])
			}
		case []interface{}:
			vt, ok := v.([]interface{})
			if !ok || len(vt) != len(ut) {
				n := -1
				if ok {
					n = len(vt)
				}
				out = append(out, fmt.Sprintf("%s: %d entries vs %d", p, len(ut), n))
				return
			}
			for i := range ut {
				rec(fmt.Sprintf("%s[%d]", p, i), ut[i], vt[i])
			}
		default:
			if fmt.Sprint(u) != fmt.Sprint(v) {
				out = append(out, fmt.Sprintf("%s: %v vs %v", p, u, v))
			}
		}
	}
	rec(path, x, y)
	return out
}

func init() {
	Register(&Property{
		ID: "C19", NoModel: true,
		Gen:        func(r *rand.Rand, tier string) []Case { return nodeGen(r, tier, "C19") },
		Exec:       c19Exec,
		NonTrivial: func(tags []string) bool { return hasTag(tags, "export-compared") },
		Rule:       "block histories as for C15 (contracts with code and storage, a liquid denomination with its ERC20 token pair, a vesting account mid-schedule, DAO holders, coinomics minting every block, delegations, a governance parameter change); at marked block boundaries and at the end the state is exported, a fresh application is initialised from the export and exported again; the two documents are compared path by path for the modules evm, feemarket, erc20, vesting, liquidvesting, ucdao, coinomics, epochs, auth, bank; non-trivial = at least one export compared; distinct = distinct histories",
	})
	Register(&Property{
		ID: "C15", NoModel: true,
		Gen:        func(r *rand.Rand, tier string) []Case { return nodeGen(r, tier, "C15") },
		Exec:       c15Exec,
		NonTrivial: func(tags []string) bool { return hasTag(tags, "invariants-evaluated") && hasTag(tags, "tx:pup") },
		Rule:       "the block histories of C01 plus vesting-account conversion, liquidation and redemption of locked coins, DAO funding and share transfers, ERC20 conversion of a registered coin, governance deposits that are burned, puppet transactions that touch module accounts and undelegate by grant; with the coinomics mint running every block; after every block every invariant registered with the crisis keeper (bank supply, staking pools and shares, distribution can-withdraw / module account, governance deposits) is evaluated on the committed state; non-trivial = history with puppet transactions; distinct = distinct histories",
	})
	Register(&Property{
		ID: "C01", NoModel: true,
		Gen:        func(r *rand.Rand, tier string) []Case { return nodeGen(r, tier, "C01") },
		Exec:       c01Exec,
		NonTrivial: func(tags []string) bool { return hasTag(tags, "replica-compared") && hasTag(tags, "tx:pup") },
		Rule:       "block histories (Cosmos bank sends, EVM transfers to new accounts, contract deployment, puppet transactions that create several new accounts and write storage in one transaction, staking by message and by precompile, reward withdrawal, DAO funding, a governance proposal that swaps active EVM extensions, calls to those extensions, transactions the ante handler rejects) executed on an application built over its own database, then fed to a second application constructed afterwards from the same genesis; every DeliverTx result (code, gas, data, events), EndBlock result and app hash is compared block by block; non-trivial = history with puppet transactions; distinct = distinct histories",
	})
	Register(&Property{
		ID: "C20", NoModel: true,
		Gen:  func(r *rand.Rand, tier string) []Case { return nodeGen(r, tier, "C20") },
		Exec: c20Exec,
		NonTrivial: func(tags []string) bool {
			return hasTag(tags, "restart-compared") && hasTag(tags, "evm-params-changed")
		},
		Rule: "the same block histories; at marked block boundaries (random ones and the ones right after the governance proposal that changes the EVM parameters executes) the database is copied and a fresh application is constructed over the copy: start-up height and app hash are compared with the never-stopped node, then all remaining blocks are fed to both and every result and app hash compared; non-trivial = at least one restart compared; distinct = distinct histories",
	})
}
