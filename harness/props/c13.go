package props

import (
	"fmt"
	"math/big"
	"math/rand"
	"strings"
	"time"

	sdkmath "cosmossdk.io/math"
	sdk "github.com/cosmos/cosmos-sdk/types"
	authtypes "github.com/cosmos/cosmos-sdk/x/auth/types"
	sdkparams "github.com/cosmos/cosmos-sdk/x/params"
	paramproposal "github.com/cosmos/cosmos-sdk/x/params/types/proposal"

	coinomicskeeper "github.com/haqq-network/haqq/x/coinomics/keeper"
	coinomicstypes "github.com/haqq-network/haqq/x/coinomics/types"
)

// C13 — coinomics mint. Ops (shared with lean/HaqqModel/Driver/C13.lean):
//
//	reset enabled rewardCoeffRaw prevTS maxSupply | enable 0/1 | setmax n | blk timeMs bonded supply | year unixSeconds
//
// The real MintAndAllocate / EndBlocker run on a Keeper built over the application's real store, codec,
// param subspace and account keeper, with recording stubs for the bank and staking keepers, so bonded,
// supply and max supply range over all magnitudes.  "realblk" cases run the application's own keeper
// with the real bank (ledger effect: module account unchanged, fee collector credited).
func init() {
	Register(&Property{
		ID:   "C13",
		Gen:  c13Gen,
		Exec: c13Exec,
		NonTrivial: func(tags []string) bool {
			return hasTag(tags, "minted>0")
		},
		Rule: "block histories on the real MintAndAllocate/EndBlocker (stubbed bank+staking for arbitrary bonded/supply magnitudes; real bank for the ledger effect): timestamps incl. equal, decreasing, year and leap-year boundaries; reward coefficients incl. 0, negative, huge; supplies at/above/just below the cap; enable/disable/re-enable and max-supply changes mid-history; civil-year probes. non-trivial = some block minted a positive amount; distinct = distinct op sequences",
	})
}

type c13Bank struct {
	supply    *big.Int
	minted    *big.Int // by the last call sequence
	forwarded *big.Int
	toModule  string
	modBal    *big.Int
}

func (b *c13Bank) GetBalance(sdk.Context, sdk.AccAddress, string) sdk.Coin { return sdk.Coin{} }
func (b *c13Bank) GetAllBalances(sdk.Context, sdk.AccAddress) sdk.Coins    { return nil }
func (b *c13Bank) SendCoinsFromModuleToAccount(sdk.Context, string, sdk.AccAddress, sdk.Coins) error {
	return fmt.Errorf("unexpected SendCoinsFromModuleToAccount")
}
func (b *c13Bank) SendCoinsFromModuleToModule(_ sdk.Context, from, to string, amt sdk.Coins) error {
	if from != coinomicstypes.ModuleName {
		return fmt.Errorf("unexpected sender module %s", from)
	}
	a := amt.AmountOf("aISLM").BigInt()
	if a.Cmp(b.modBal) > 0 {
		return fmt.Errorf("insufficient module balance")
	}
	b.modBal.Sub(b.modBal, a)
	b.forwarded.Add(b.forwarded, a)
	b.toModule = to
	return nil
}
func (b *c13Bank) MintCoins(_ sdk.Context, name string, amt sdk.Coins) error {
	if name != coinomicstypes.ModuleName {
		return fmt.Errorf("unexpected minter %s", name)
	}
	a := amt.AmountOf("aISLM").BigInt()
	b.minted.Add(b.minted, a)
	b.modBal.Add(b.modBal, a)
	b.supply.Add(b.supply, a)
	return nil
}
func (b *c13Bank) BurnCoins(sdk.Context, string, sdk.Coins) error {
	return fmt.Errorf("unexpected burn")
}
func (b *c13Bank) HasSupply(sdk.Context, string) bool { return true }
func (b *c13Bank) GetSupply(_ sdk.Context, denom string) sdk.Coin {
	return sdk.NewCoin(denom, sdkmath.NewIntFromBigInt(b.supply))
}

type c13Staking struct{ bonded *big.Int }

func (s *c13Staking) BondedRatio(sdk.Context) sdk.Dec            { return sdk.ZeroDec() }
func (s *c13Staking) StakingTokenSupply(sdk.Context) sdkmath.Int { return sdkmath.ZeroInt() }
func (s *c13Staking) TotalBondedTokens(sdk.Context) sdkmath.Int {
	return sdkmath.NewIntFromBigInt(s.bonded)
}

func c13Gen(r *rand.Rand, tier string) []Case {
	n, maxBlocks := 300, 12
	if tier == "thorough" {
		n, maxBlocks = 15000, 40
	}
	e := func(k int64) *big.Int { return new(big.Int).Exp(big.NewInt(10), big.NewInt(k), nil) }
	var out []Case
	// year boundaries of interest (unix seconds): 2023→2024 (leap), 2024→2025, 2099→2100 (not leap), 1999→2000 (leap)
	bounds := []int64{1704067200, 1735689600, 4102444800, 946684800, 1709164800 /* 2024-02-29 */}
	// fixed case: the reward coefficient is negative for a while (validation accepts it), then positive again
	out = append(out, Case{"reset 1 7800000000000000000 0 100000000000000000000000000000 20000000000000000000000000000",
		"blk 1700000000000 4000000000000000000000000000 -", "blk 1700000006000 4000000000000000000000000000 -", "setcoef -1000000000000000000",
		"blk 1700000012000 4000000000000000000000000000 -", "blk 1700003600000 4000000000000000000000000000 -", "setcoef 7800000000000000000",
		"blk 1700003606000 4000000000000000000000000000 -", "blk 1700003612000 4000000000000000000000000000 -"})
	// fixed case: minting, switched off and on again by governance proposals (and, for comparison, through the keeper)
	for _, via := range []string{" # via=gov", ""} {
		out = append(out, Case{"reset 1 7800000000000000000 0 100000000000000000000000000000 20000000000000000000000000000",
			"blk 1700000000000 4000000000000000000000000000 -", "blk 1700000006000 4000000000000000000000000000 -", "blk 1700000012000 4000000000000000000000000000 -",
			"enable 0" + via, "blk 1700003600000 4000000000000000000000000000 -", "blk 1700007200000 4000000000000000000000000000 -",
			"enable 1" + via, "blk 1700007206000 4000000000000000000000000000 -", "blk 1700007212000 4000000000000000000000000000 -"})
	}
	for i := 0; i < n; i++ {
		var c Case
		rc := pick(r, []*big.Int{new(big.Int).Mul(big.NewInt(78), e(17)), big.NewInt(0), e(18), new(big.Int).Mul(big.NewInt(15_000_000_000), e(18)), new(big.Int).Neg(e(18)), big.NewInt(1), new(big.Int).Rand(r, e(21)), big.NewInt(int64(r.Intn(1000)))})
		bonded := pick(r, []*big.Int{big.NewInt(0), big.NewInt(1), e(18), new(big.Int).Mul(big.NewInt(4), e(18)), e(27), e(28), randBig(r), new(big.Int).Rand(r, e(28))})
		supply := pick(r, []*big.Int{e(28), new(big.Int).Mul(big.NewInt(2), e(28)), big.NewInt(0), big.NewInt(1000), randBig(r)})
		var maxS *big.Int
		switch r.Intn(6) {
		case 0:
			maxS = new(big.Int).Set(supply)
		case 1:
			maxS = new(big.Int).Add(supply, big.NewInt(int64(r.Intn(1000))))
		case 2:
			maxS = new(big.Int).Sub(supply, big.NewInt(int64(r.Intn(10))))
			if maxS.Sign() < 0 {
				maxS = big.NewInt(0)
			}
		case 3:
			maxS = new(big.Int).Add(supply, new(big.Int).Rand(r, e(17)))
		default:
			maxS = new(big.Int).Mul(big.NewInt(100), e(27))
			if maxS.Cmp(supply) < 0 {
				maxS = new(big.Int).Add(supply, e(20))
			}
		}
		t := int64(1_600_000_000_000 + r.Int63n(400_000_000_000))
		if r.Intn(3) == 0 {
			t = pick(r, bounds)*1000 - int64(r.Intn(20_000))
		}
		prev := int64(0)
		if r.Intn(2) == 0 {
			prev = t - int64(1+r.Intn(10_000))
		}
		en := 1
		if r.Intn(8) == 0 {
			en = 0
			prev = 0 // reachable states only: the timestamp is cleared while minting is off
		}
		c = append(c, fmt.Sprintf("reset %d %s %d %s", en, rc, prev, maxS))
		nb := 2 + r.Intn(maxBlocks)
		for j := 0; j < nb; j++ {
			switch r.Intn(12) {
			case 0:
				t -= int64(r.Intn(3000)) // non-monotone clock (cannot happen under CometBFT, must not mint)
			case 1:
				// same timestamp
			case 2:
				t += int64(r.Intn(1_000_000_000))
			default:
				t += int64(1 + r.Intn(7000))
			}
			if r.Intn(9) == 0 {
				en = 1 - en
				if r.Intn(2) == 0 {
					c = append(c, fmt.Sprintf("enable %d # via=gov", en))
				} else {
					c = append(c, fmt.Sprintf("enable %d", en))
				}
			}
			if r.Intn(12) == 0 {
				c = append(c, fmt.Sprintf("setcoef %s", pick(r, []*big.Int{new(big.Int).Mul(big.NewInt(78), e(17)), new(big.Int).Neg(e(18)), big.NewInt(0), e(18), new(big.Int).Neg(big.NewInt(1))})))
			}
			if r.Intn(15) == 0 {
				maxS = new(big.Int).Add(maxS, new(big.Int).Rand(r, e(24)))
				c = append(c, fmt.Sprintf("setmax %s", maxS))
			}
			if r.Intn(6) == 0 {
				bonded = pick(r, []*big.Int{bonded, new(big.Int).Add(bonded, e(18)), randBig(r)})
			}
			c = append(c, fmt.Sprintf("blk %d %s -", t, bonded)) // "-" = supply follows the stub's own running supply
		}
		if r.Intn(4) == 0 {
			c = append(c, fmt.Sprintf("year %d", pick(r, bounds)+int64(r.Intn(3))-1), fmt.Sprintf("year %d", r.Int63n(8_000_000_000)))
		}
		_ = supply
		// the running supply starts at `supply`
		c[0] = c[0] + " " + supply.String()
		out = append(out, c)
	}
	return out
}

// independent re-computation of the fixed-point pipeline (monitor side)
func c13ChopRound(x *big.Int) *big.Int {
	if x.Sign() < 0 {
		return new(big.Int).Neg(c13ChopRound(new(big.Int).Neg(x)))
	}
	q, rem := new(big.Int).QuoRem(x, e18, new(big.Int))
	half := new(big.Int).Quo(e18, big.NewInt(2))
	switch rem.Cmp(half) {
	case -1:
		return q
	case 1:
		return q.Add(q, big.NewInt(1))
	}
	if rem.Sign() == 0 || q.Bit(0) == 0 {
		return q
	}
	return q.Add(q, big.NewInt(1))
}

func c13Exec(c Case) (outs []string, fails []Failure, tags []string) {
	nw, _ := fixture()
	app := nw.App
	base := nw.GetContext()
	ctx, _ := base.CacheContext()
	bank := &c13Bank{supply: new(big.Int), minted: new(big.Int), forwarded: new(big.Int), modBal: new(big.Int)}
	stk := &c13Staking{bonded: new(big.Int)}
	k := coinomicskeeper.NewKeeper(app.GetKey(coinomicstypes.StoreKey), app.AppCodec(), app.GetSubspace(coinomicstypes.ModuleName), app.AccountKeeper, bank, app.DistrKeeper, stk, authtypes.FeeCollectorName)
	var lastEnabledBlockTime int64 // timestamp of the last block processed while enabled (0 = none since activation)
	cfgCoef := sdk.ZeroDec()       // the reward coefficient as configured (by the case's own parameter write), not as read back
	for i, line := range c {
		f := strings.Fields(line)
		out := "bad-op"
		switch f[0] {
		case "reset":
			ctx, _ = base.CacheContext()
			p := coinomicstypes.Params{MintDenom: "aISLM", EnableCoinomics: f[1] == "1", RewardCoefficient: sdk.NewDecFromBigIntWithPrec(mustBig(f[2]), 18)}
			k.SetParams(ctx, p)
			cfgCoef = p.RewardCoefficient
			k.SetPrevBlockTS(ctx, sdkmath.NewIntFromBigInt(mustBig(f[3])))
			k.SetMaxSupply(ctx, sdk.NewCoin("aISLM", sdkmath.NewIntFromBigInt(mustBig(f[4]))))
			bank.supply = mustBig(f[5])
			bank.modBal = new(big.Int)
			lastEnabledBlockTime = 0
			if f[1] == "1" && f[3] != "0" {
				lastEnabledBlockTime = mustBig(f[3]).Int64()
			}
			out = "ok"
		case "enable":
			if vmKV(f)["via"] == "gov" {
				// the route a live chain takes: a governance parameter-change proposal, whose handler writes the module's
				// parameter subspace directly (no keeper method runs)
				val := "false"
				if f[1] == "1" {
					val = "true"
				}
				h := sdkparams.NewParamChangeProposalHandler(app.ParamsKeeper)
				if err := h(ctx, paramproposal.NewParameterChangeProposal("coinomics", "switch", []paramproposal.ParamChange{paramproposal.NewParamChange(coinomicstypes.ModuleName, string(coinomicstypes.ParamStoreKeyEnableCoinomics), val)})); err != nil {
					panic(err)
				}
				tags = append(tags, "switched-by-governance-proposal")
			} else {
				p := k.GetParams(ctx)
				p.EnableCoinomics = f[1] == "1"
				k.SetParams(ctx, p)
			}
			out = "ok"
		case "setcoef":
			// governance changes the reward coefficient mid-history (validation accepts any decimal, negative ones included)
			p := k.GetParams(ctx)
			p.RewardCoefficient = sdk.NewDecFromBigIntWithPrec(mustBig(f[1]), 18)
			k.SetParams(ctx, p)
			cfgCoef = p.RewardCoefficient
			out = "ok"
		case "setmax":
			k.SetMaxSupply(ctx, sdk.NewCoin("aISLM", sdkmath.NewIntFromBigInt(mustBig(f[1]))))
			out = "ok"
		case "blk":
			var t int64
			fmt.Sscan(f[1], &t)
			stk.bonded = mustBig(f[2])
			bank.minted, bank.forwarded, bank.toModule = new(big.Int), new(big.Int), ""
			pre := k.GetParams(ctx)
			preSupply := new(big.Int).Set(bank.supply)
			prevTS := k.GetPrevBlockTS(ctx).BigInt()
			maxS := k.GetMaxSupply(ctx).Amount.BigInt()
			bctx := ctx.WithBlockTime(time.UnixMilli(t).UTC())
			k.EndBlocker(bctx)
			post := k.GetParams(ctx)
			en := "0"
			if post.EnableCoinomics {
				en = "1"
			}
			out = fmt.Sprintf("minted=%s enabled=%s prevTS=%s", bank.minted, en, k.GetPrevBlockTS(ctx))
			// the Lean driver needs the supply reading the block saw: rewrite the op line
			c[i] = fmt.Sprintf("blk %d %s %s", t, f[2], preSupply)
			// ---- monitors ----
			fl := func(sig, what string) { fails = append(fails, Failure{Signature: sig, What: what, Case: c[:i+1]}) }
			if bank.minted.Sign() > 0 {
				tags = append(tags, "minted>0")
			}
			if bank.minted.Cmp(bank.forwarded) != 0 || (bank.minted.Sign() > 0 && bank.toModule != authtypes.FeeCollectorName) || bank.modBal.Sign() != 0 {
				fl("C13:not-all-to-collector", fmt.Sprintf("minted %s, forwarded %s to %q, module keeps %s", bank.minted, bank.forwarded, bank.toModule, bank.modBal))
			}
			if preSupply.Cmp(maxS) <= 0 && bank.supply.Cmp(maxS) > 0 {
				fl("C13:cap-exceeded", fmt.Sprintf("supply %s → %s exceeds max %s", preSupply, bank.supply, maxS))
			}
			if !pre.EnableCoinomics && bank.minted.Sign() != 0 {
				fl("C13:mint-while-disabled", fmt.Sprintf("minted %s while disabled", bank.minted))
			}
			if pre.EnableCoinomics && lastEnabledBlockTime == 0 && bank.minted.Sign() != 0 {
				sig := "C13:mint-on-first-block-after-activation"
				if prevTS.Sign() != 0 {
					sig = "C13:mint-on-first-block-after-reactivation:stale-prevTS"
				}
				fl(sig, fmt.Sprintf("first block after activation minted %s (stored prevTS %s, block time %d)", bank.minted, prevTS, t))
			}
			// the formula amount (an 18-decimal fixed-point value, before the final rounding to a unit) with
			// elapsed = this block − previous enabled block (consecutive timestamps)
			formula := func() *big.Int {
				yr := time.UnixMilli(t).UTC().Year()
				ym := int64(31536000000)
				if (yr%4 == 0 && yr%100 != 0) || yr%400 == 0 {
					ym = 31622400000
				}
				rcq := new(big.Int).Mul(cfgCoef.BigInt(), new(big.Int).Mul(e18, e18))
				rcq.Quo(rcq, new(big.Int).Mul(big.NewInt(100), e18))
				rcq = c13ChopRound(rcq)
				el := new(big.Int).Mul(big.NewInt(t-lastEnabledBlockTime), e18)
				el.Mul(el, new(big.Int).Mul(e18, e18)).Quo(el, new(big.Int).Mul(big.NewInt(ym), e18))
				el = c13ChopRound(el)
				m := c13ChopRound(new(big.Int).Mul(new(big.Int).Mul(stk.bonded, e18), rcq))
				return c13ChopRound(new(big.Int).Mul(m, el))
			}
			if pre.EnableCoinomics && lastEnabledBlockTime != 0 && bank.minted.Sign() > 0 && post.EnableCoinomics {
				want := c13ChopRound(formula())
				if want.Cmp(bank.minted) != 0 {
					fl("C13:formula", fmt.Sprintf("minted %s, formula with elapsed %d ms gives %s", bank.minted, t-lastEnabledBlockTime, want))
				}
			}
			if !post.RewardCoefficient.Equal(cfgCoef) {
				fl("C13:reward-coefficient-rewritten", fmt.Sprintf("a block changed the stored reward coefficient from the configured %s to %s: later blocks mint by the wrong formula", cfgCoef, post.RewardCoefficient))
			}
			if pre.EnableCoinomics && !post.EnableCoinomics {
				// switched off by the cap: must have minted exactly the remainder
				if preSupply.Cmp(maxS) <= 0 && new(big.Int).Add(preSupply, bank.minted).Cmp(maxS) != 0 {
					fl("C13:cap-remainder", fmt.Sprintf("switched off with supply %s + minted %s ≠ max %s", preSupply, bank.minted, maxS))
				}
			}
			if pre.EnableCoinomics {
				// "consecutive block timestamps": every block processed while enabled becomes the reference of the
				// next one — except when the formula amount is negative (the clock ran backwards or the coefficient is
				// negative, with something bonded: cannot happen under CometBFT / sane params; the code then mints
				// nothing and keeps the old reference).  A backwards step with nothing bonded has the amount 0 and
				// is a reference like any other block.
				// "consecutive block timestamps": every block processed while enabled becomes the reference of the next one,
				// also when the formula amount is negative (a negative coefficient, a clock running backwards): nothing is
				// minted then, but the next block's elapsed time is still measured from this one
				negative := lastEnabledBlockTime != 0 && formula().Sign() < 0
				if negative && bank.minted.Sign() != 0 {
					fl("C13:minted-on-negative-amount", fmt.Sprintf("the formula amount is negative and %s were minted", bank.minted))
				}
				lastEnabledBlockTime = t
				if k.GetPrevBlockTS(ctx).BigInt().Cmp(big.NewInt(t)) != 0 && (preSupply.Cmp(maxS) <= 0 || negative) {
					fl("C13:reference-not-advanced", fmt.Sprintf("enabled block at %d left the stored reference at %s: the next block's elapsed time will not be measured from this block", t, k.GetPrevBlockTS(ctx)))
				}
			} else {
				lastEnabledBlockTime = 0
			}
		case "year":
			var s int64
			fmt.Sscan(f[1], &s)
			out = fmt.Sprint(time.Unix(s, 0).UTC().Year())
		}
		outs = append(outs, out)
	}
	return
}
