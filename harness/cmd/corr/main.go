// Command corr runs one property's correspondence cases and monitors against the real code.
//   corr <Cxx> -seed N -tier quick|thorough -out DIR -corpus DIR [-replay FILE]
package main

import (
	"flag"
	"fmt"
	"os"

	"verif/harness/props"
)

func main() {
	if len(os.Args) < 2 {
		fmt.Fprintln(os.Stderr, "usage: corr <Cxx> [flags]")
		os.Exit(2)
	}
	id := os.Args[1]
	fs := flag.NewFlagSet("corr", flag.ExitOnError)
	seed := fs.Int64("seed", 1, "")
	tier := fs.String("tier", "quick", "")
	out := fs.String("out", "", "")
	corpus := fs.String("corpus", "", "")
	replay := fs.String("replay", "", "")
	_ = fs.Parse(os.Args[2:])
	p := props.Get(id)
	if p == nil {
		fmt.Fprintln(os.Stderr, "corr: unknown property", id)
		os.Exit(2)
	}
	rep, err := props.Run(p, *seed, *tier, *out, *corpus, *replay)
	if err != nil {
		fmt.Fprintln(os.Stderr, "corr:", err)
		os.Exit(2)
	}
	fmt.Printf("corr %s: cases=%d ops=%d distinct_nontrivial=%d failures=%d panics=%d\n", id, rep.Evaluations, rep.Ops, rep.DistinctNontrivial, len(rep.Failures), rep.Panics)
}
