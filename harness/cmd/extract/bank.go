package main

import (
	"go/ast"
	"sort"
	"strings"
)

func init() { moreFacts = append(moreFacts, factsBank) }

func factsBank() {
	// case labels of the BurnCoins override and what the case body does
	var labels []string
	redirects, fallsThrough := false, false
	if fd := funcDecl("x/bank/keeper/keeper.go", "BaseKeeper", "BurnCoins"); fd != nil {
		ast.Inspect(fd.Body, func(n ast.Node) bool {
			if sw, ok := n.(*ast.SwitchStmt); ok && exprName(sw.Tag) == "moduleName" {
				for _, cl := range sw.Body.List {
					cc := cl.(*ast.CaseClause)
					for _, e := range cc.List {
						labels = append(labels, src(e))
					}
					b := src(cc)
					if strings.Contains(b, "SendCoinsFromModuleToModule(ctx, moduleName, distrtypes.ModuleName, amounts)") &&
						strings.Contains(b, "feePool.CommunityPool = feePool.CommunityPool.Add(coins...)") &&
						strings.Contains(b, "kvstore.Set(distrtypes.FeePoolKey") {
						redirects = true
					}
				}
			}
			return true
		})
		body := src(fd.Body)
		fallsThrough = strings.Contains(body, "return k.BaseKeeper.BurnCoins(ctx, moduleName, amounts)")
	}
	sort.Strings(labels)
	emitStrs("bankBurnRedirectedModules", labels, "case labels of the BurnCoins override in x/bank/keeper/keeper.go (sorted)")
	emitBool("bankBurnRedirectMovesAndBooks", redirects, "the redirected case sends the coins to the distribution module account and adds them to FeePool.CommunityPool")
	emitBool("bankBurnOthersFallThrough", fallsThrough, "every other module name falls through to the SDK BurnCoins")
	// which keeper constructors receive the overriding keeper
	var users []string
	if f := parse("app/app.go"); f != nil {
		ast.Inspect(f, func(n ast.Node) bool {
			if c, ok := n.(*ast.CallExpr); ok {
				for _, a := range c.Args {
					if src(a) == "&haqqBankKeeper" {
						users = append(users, exprName(c.Fun))
					}
				}
			}
			return true
		})
	}
	sort.Strings(users)
	emitStrs("bankOverrideUsers", users, "constructors in app.go that are handed &haqqBankKeeper (the overriding bank keeper)")
	// module account permissions
	var perms [][2]string
	if f := parse("app/app.go"); f != nil {
		ast.Inspect(f, func(n ast.Node) bool {
			vs, ok := n.(*ast.ValueSpec)
			if !ok || len(vs.Names) != 1 || vs.Names[0].Name != "maccPerms" || len(vs.Values) != 1 {
				return true
			}
			if cl, ok := vs.Values[0].(*ast.CompositeLit); ok {
				for _, el := range cl.Elts {
					if kv, ok := el.(*ast.KeyValueExpr); ok {
						v := src(kv.Value)
						v = strings.Trim(v, "{}")
						v = strings.ReplaceAll(v, "authtypes.", "")
						v = strings.ReplaceAll(v, " ", "")
						perms = append(perms, [2]string{src(kv.Key), v})
					}
				}
			}
			return false
		})
	}
	emitPairs("maccPerms", perms, "module account permissions (app.go maccPerms), in source order")
}
