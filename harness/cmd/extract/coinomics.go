package main

import (
	"go/ast"
	"strings"
)

func init() { moreFacts = append(moreFacts, factsCoinomics) }

func factsCoinomics() {
	resets := false
	if fd := funcDecl("x/coinomics/keeper/abci.go", "Keeper", "EndBlocker"); fd != nil {
		ast.Inspect(fd.Body, func(n ast.Node) bool {
			if is, ok := n.(*ast.IfStmt); ok && strings.Contains(src(is.Cond), "!params.EnableCoinomics") {
				b := src(is.Body)
				if strings.Contains(b, "SetPrevBlockTS(ctx, sdk.ZeroInt())") && strings.Contains(b, "return") {
					resets = true
				}
			}
			return true
		})
	}
	emitBool("coinomicsResetsPrevTSWhenDisabled", resets, "coinomics EndBlocker clears PrevBlockTS while EnableCoinomics is false")
	imports := false
	if fd := funcDecl("x/coinomics/genesis.go", "", "InitGenesis"); fd != nil {
		imports = strings.Contains(src(fd.Body), "SetPrevBlockTS(ctx, data.PrevBlockTs)")
	}
	emitBool("coinomicsInitImportsPrevTS", imports, "coinomics InitGenesis writes the exported PrevBlockTs back")
	// order of the two writes after a successful mint: prevTS is advanced only after mint+forward
	order := false
	if fd := funcDecl("x/coinomics/keeper/inflation.go", "Keeper", "MintAndAllocate"); fd != nil {
		m := calls(fd.Body, "MintCoins")
		f := calls(fd.Body, "SendCoinsFromModuleToModule")
		s := calls(fd.Body, "SetPrevBlockTS")
		if len(m) >= 1 && len(f) == 1 && len(s) == 2 {
			order = m[0].Pos() < f[0].Pos() && f[0].Pos() < s[1].Pos() && argIs(f[0], 2, "k.feeCollectorName")
		}
	}
	emitBool("coinomicsMintThenForwardToCollector", order, "MintAndAllocate mints to the module, forwards the same coins to the fee collector, then advances PrevBlockTS")
}
