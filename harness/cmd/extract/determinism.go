package main

import (
	"fmt"
	"go/ast"
	"go/types"
	"os"
	"sort"
	"strings"

	"golang.org/x/tools/go/packages"
)

// Facts for C01 (determinism) and C20 (restart): they need type information (which `range` is over a map)
// and a sweep over all consensus packages, so this group loads the packages with go/packages.
func init() { moreFacts = append(moreFacts, factsDeterminism) }

var consensusPatterns = []string{"./app/...", "./x/...", "./precompiles/...", "./types/...", "./utils/...", "./ethereum/...", "./crypto/...", "./encoding/..."}

// ante / post decorators and precompiles, by the repository's naming convention
func isHandlerType(n string) bool {
	return strings.HasSuffix(n, "Decorator") || n == "Precompile" || strings.HasSuffix(n, "Handler")
}

func skipFile(fn string) bool {
	return strings.HasSuffix(fn, "_test.go") || strings.HasSuffix(fn, ".pb.go") || strings.HasSuffix(fn, ".pb.gw.go") ||
		strings.Contains(fn, "/client/") || strings.Contains(fn, "/simulation/") || strings.Contains(fn, "/testutil/") || strings.Contains(fn, "/testdata/") || strings.Contains(fn, "/mocks/") || strings.Contains(fn, "_mocks")
}

func factsDeterminism() {
	cfg := &packages.Config{Mode: packages.NeedName | packages.NeedFiles | packages.NeedSyntax | packages.NeedTypes | packages.NeedTypesInfo, Dir: repo, Tests: false}
	pkgs, err := packages.Load(cfg, consensusPatterns...)
	if err != nil {
		fmt.Fprintln(os.Stderr, "extract: go/packages:", err)
		pkgs = nil
	}
	var ranges, nows, gos, writers, localReads, handlerWriters [][2]string
	calendarMethods := map[string]bool{"Year": true, "Month": true, "Day": true, "Hour": true, "Minute": true, "Weekday": true,
		"YearDay": true, "Date": true, "Clock": true, "ISOWeek": true, "Format": true, "AppendFormat": true, "String": true,
		"Zone": true, "Location": true, "MarshalJSON": true, "MarshalText": true, "MarshalBinary": true, "GobEncode": true}
	loaded := len(pkgs) > 0
	for _, p := range pkgs {
		if len(p.Errors) > 0 {
			loaded = false
		}
		for _, f := range p.Syntax {
			fn := strings.TrimPrefix(p.Fset.Position(f.Pos()).Filename, repo+"/")
			if skipFile("/" + fn) {
				continue
			}
			for _, d := range f.Decls {
				fd, ok := d.(*ast.FuncDecl)
				if !ok || fd.Body == nil {
					continue
				}
				name := fd.Name.Name
				recvVar, recvType := "", ""
				if fd.Recv != nil && len(fd.Recv.List) > 0 {
					recvType = typeName(fd.Recv.List[0].Type)
					name = recvType + "." + name
					if len(fd.Recv.List[0].Names) > 0 {
						recvVar = fd.Recv.List[0].Names[0].Name
					}
				}
				sorts := false
				ast.Inspect(fd.Body, func(n ast.Node) bool {
					if ce, ok := n.(*ast.CallExpr); ok {
						if se, ok := ce.Fun.(*ast.SelectorExpr); ok {
							if id, ok := se.X.(*ast.Ident); ok && (id.Name == "sort" || id.Name == "slices") {
								sorts = true
							}
						}
					}
					return true
				})
				// does expression e denote a field of the receiver (recv.f, recv.f[...])?
				recvField := func(e ast.Expr) string {
					for {
						switch t := e.(type) {
						case *ast.IndexExpr:
							e = t.X
							continue
						case *ast.ParenExpr:
							e = t.X
							continue
						case *ast.StarExpr:
							e = t.X
							continue
						case *ast.SelectorExpr:
							if id, ok := t.X.(*ast.Ident); ok && recvVar != "" && id.Name == recvVar {
								return t.Sel.Name
							}
						}
						return ""
					}
				}
				// time values built from a Unix timestamp carry the location time.Local (the host's time zone) unless
				// .UTC() / .In(...) is applied: a calendar read on one of them depends on the host
				localTimes := map[string]bool{}
				isLocalCtor := func(e ast.Expr) bool {
					c, ok := e.(*ast.CallExpr)
					if !ok {
						return false
					}
					switch callName(c) {
					case "time.Unix", "time.UnixMilli", "time.UnixMicro", "time.Now":
						return true
					}
					return false
				}
				ast.Inspect(fd.Body, func(n ast.Node) bool {
					if as, ok := n.(*ast.AssignStmt); ok && len(as.Lhs) == len(as.Rhs) {
						for i, r := range as.Rhs {
							if id, ok := as.Lhs[i].(*ast.Ident); ok && isLocalCtor(r) {
								localTimes[id.Name] = true
							}
						}
					}
					return true
				})
				ast.Inspect(fd.Body, func(n ast.Node) bool {
					c, ok := n.(*ast.CallExpr)
					if !ok {
						return true
					}
					se, ok := c.Fun.(*ast.SelectorExpr)
					if !ok || !calendarMethods[se.Sel.Name] {
						return true
					}
					if ty := p.TypesInfo.TypeOf(se.X); ty == nil || ty.String() != "time.Time" {
						return true
					}
					if id, ok := se.X.(*ast.Ident); (ok && localTimes[id.Name]) || isLocalCtor(se.X) {
						localReads = append(localReads, [2]string{fn, name + "::" + se.Sel.Name})
					}
					return true
				})
				ast.Inspect(fd.Body, func(n ast.Node) bool {
					switch t := n.(type) {
					case *ast.RangeStmt:
						if ty := p.TypesInfo.TypeOf(t.X); ty != nil {
							if _, isMap := ty.Underlying().(*types.Map); isMap {
								v := "unsorted"
								if sorts {
									v = "sorted"
								}
								ranges = append(ranges, [2]string{fn + "::" + name + "::" + types.ExprString(t.X), v})
							}
						}
					case *ast.CallExpr:
						switch callName(t) {
						case "time.Now":
							nows = append(nows, [2]string{fn, name})
						case "delete", "maps.Copy":
							if len(t.Args) > 0 {
								if fld := recvField(t.Args[0]); fld != "" && (recvType == "Keeper" || recvType == "Haqq") {
									writers = append(writers, [2]string{fn + "::" + recvType + "." + fld, name})
								} else if fld != "" && isHandlerType(recvType) {
									handlerWriters = append(handlerWriters, [2]string{fn + "::" + recvType + "." + fld, name})
								}
							}
						}
					case *ast.GoStmt:
						gos = append(gos, [2]string{fn, name})
					case *ast.SelectorExpr:
						// maps.Keys / maps.Values (golang.org/x/exp/maps, or the standard library's iterators): the elements of
						// a map in its iteration order, without a `range` statement
						if id, ok := t.X.(*ast.Ident); ok && id.Name == "maps" && (t.Sel.Name == "Keys" || t.Sel.Name == "Values" || t.Sel.Name == "All") {
							order := "unsorted"
							if sorts {
								order = "sorted"
							}
							ranges = append(ranges, [2]string{fn + "::" + name + "::maps." + t.Sel.Name, order})
						}
					case *ast.AssignStmt:
						for _, l := range t.Lhs {
							if fld := recvField(l); fld != "" && (recvType == "Keeper" || recvType == "Haqq") {
								writers = append(writers, [2]string{fn + "::" + recvType + "." + fld, name})
							} else if fld != "" && isHandlerType(recvType) {
								handlerWriters = append(handlerWriters, [2]string{fn + "::" + recvType + "." + fld, name})
							}
						}
					case *ast.IncDecStmt:
						if fld := recvField(t.X); fld != "" && (recvType == "Keeper" || recvType == "Haqq") {
							writers = append(writers, [2]string{fn + "::" + recvType + "." + fld, name})
						} else if fld != "" && isHandlerType(recvType) {
							handlerWriters = append(handlerWriters, [2]string{fn + "::" + recvType + "." + fld, name})
						}
					}
					return true
				})
			}
		}
	}
	// in-memory containers held by keepers: fields of a struct named Keeper whose type can hold data that is not in the
	// store — maps, slices, channels, sync primitives, pointers to structs of the module's own packages that are
	// not keepers themselves
	var memFields [][2]string
	for _, p := range pkgs {
		if p.Types == nil {
			continue
		}
		obj := p.Types.Scope().Lookup("Keeper")
		tn, ok := obj.(*types.TypeName)
		if !ok {
			continue
		}
		st, ok := tn.Type().Underlying().(*types.Struct)
		if !ok {
			continue
		}
		rel := strings.TrimPrefix(p.PkgPath, "github.com/haqq-network/haqq/")
		for i := 0; i < st.NumFields(); i++ {
			f := st.Field(i)
			kind := ""
			switch u := f.Type().Underlying().(type) {
			case *types.Map:
				kind = "map"
			case *types.Slice:
				if b, ok := u.Elem().Underlying().(*types.Basic); !ok || b.Kind() != types.Uint8 {
					kind = "slice" // (byte strings such as an authority address are values, not containers)
				}
			case *types.Chan:
				kind = "chan"
			case *types.Pointer:
				if n, ok := u.Elem().(*types.Named); ok {
					if _, isStruct := n.Underlying().(*types.Struct); isStruct && n.Obj().Pkg() != nil {
						pp := n.Obj().Pkg().Path()
						switch {
						case pp == "sync" || pp == "sync/atomic":
							kind = "sync"
						case !strings.HasSuffix(n.Obj().Name(), "Keeper") && !strings.HasSuffix(n.Obj().Name(), "StoreKey") && !strings.Contains(pp, "/codec") && !strings.HasSuffix(n.Obj().Name(), "Codec"):
							kind = "ptr:" + pp + "." + n.Obj().Name()
						}
					}
				}
			case *types.Struct:
				if n, ok := f.Type().(*types.Named); ok && n.Obj().Pkg() != nil && (n.Obj().Pkg().Path() == "sync" || n.Obj().Pkg().Path() == "sync/atomic") {
					kind = "sync"
				}
			}
			if kind != "" {
				memFields = append(memFields, [2]string{rel + "::Keeper." + f.Name(), kind})
			}
		}
	}
	sort.Slice(memFields, func(i, j int) bool { return memFields[i][0] < memFields[j][0] })
	emitPairs("keeperMemFields", memFields, "every field of a struct named Keeper (consensus packages) that can hold data outside the store: package::Keeper.field → map | slice | chan | sync | ptr:<type> (pointer to a struct that is not a keeper, a store key or a codec)")

	// the same question for everything else that sits on the transaction path and is built once per process: ante /
	// post decorators (types with an AnteHandle / PostHandle method) and the precompiles (types with a Run method)
	memKind := func(t types.Type) string {
		switch u := t.Underlying().(type) {
		case *types.Map:
			return "map"
		case *types.Slice:
			if b, ok := u.Elem().Underlying().(*types.Basic); !ok || b.Kind() != types.Uint8 {
				return "slice"
			}
		case *types.Chan:
			return "chan"
		case *types.Pointer:
			if n, ok := u.Elem().(*types.Named); ok {
				if _, isStruct := n.Underlying().(*types.Struct); isStruct && n.Obj().Pkg() != nil {
					pp := n.Obj().Pkg().Path()
					switch {
					case pp == "sync" || pp == "sync/atomic":
						return "sync"
					case !strings.HasSuffix(n.Obj().Name(), "Keeper") && !strings.HasSuffix(n.Obj().Name(), "StoreKey") && !strings.Contains(pp, "/codec") && !strings.HasSuffix(n.Obj().Name(), "Codec"):
						return "ptr:" + strings.TrimPrefix(pp, "github.com/haqq-network/haqq/") + "." + n.Obj().Name()
					}
				}
			}
		case *types.Struct:
			if n, ok := t.(*types.Named); ok && n.Obj().Pkg() != nil && (n.Obj().Pkg().Path() == "sync" || n.Obj().Pkg().Path() == "sync/atomic") {
				return "sync"
			}
		}
		return ""
	}
	var handlerMem [][2]string
	for _, p := range pkgs {
		if p.Types == nil {
			continue
		}
		rel := strings.TrimPrefix(p.PkgPath, "github.com/haqq-network/haqq/")
		sc := p.Types.Scope()
		for _, nm := range sc.Names() {
			tn, ok := sc.Lookup(nm).(*types.TypeName)
			if !ok {
				continue
			}
			if fn := p.Fset.Position(tn.Pos()).Filename; skipFile("/" + strings.TrimPrefix(fn, repo+"/")) {
				continue
			}
			st, ok := tn.Type().Underlying().(*types.Struct)
			if !ok {
				continue
			}
			onPath := false
			for _, ms := range []*types.MethodSet{types.NewMethodSet(tn.Type()), types.NewMethodSet(types.NewPointer(tn.Type()))} {
				for _, m := range []string{"AnteHandle", "PostHandle", "Run"} {
					if ms.Lookup(p.Types, m) != nil {
						onPath = true
					}
				}
			}
			if !onPath {
				continue
			}
			for i := 0; i < st.NumFields(); i++ {
				f := st.Field(i)
				if k := memKind(f.Type()); k != "" {
					handlerMem = append(handlerMem, [2]string{rel + "::" + nm + "." + f.Name(), k})
				}
			}
		}
	}
	sort.Slice(handlerMem, func(i, j int) bool { return handlerMem[i][0] < handlerMem[j][0] })
	sort.Slice(handlerWriters, func(i, j int) bool {
		if handlerWriters[i][0] != handlerWriters[j][0] {
			return handlerWriters[i][0] < handlerWriters[j][0]
		}
		return handlerWriters[i][1] < handlerWriters[j][1]
	})
	emitPairs("handlerFieldWriters", handlerWriters, "every assignment, increment or delete on a field of a method receiver whose type is a decorator (…Decorator, …Handler) or a Precompile: file::Type.field, method")
	emitPairs("handlerMemFields", handlerMem, "every field of an ante / post decorator (AnteHandle, PostHandle) or precompile (Run) struct in consensus packages that can hold data outside the store: package::Type.field → map | slice | chan | sync | ptr:<type>")

	// package-level variables that are written (assigned, indexed-assigned, appended to, incremented) inside a function
	// body other than init: memory of the process shared by everything in it
	var globalWrites [][2]string
	for _, p := range pkgs {
		if p.TypesInfo == nil {
			continue
		}
		for _, f := range p.Syntax {
			fn := strings.TrimPrefix(p.Fset.Position(f.Pos()).Filename, repo+"/")
			if skipFile("/" + fn) {
				continue
			}
			for _, d := range f.Decls {
				fd, ok := d.(*ast.FuncDecl)
				if !ok || fd.Body == nil || (fd.Recv == nil && fd.Name.Name == "init") {
					continue
				}
				name := fd.Name.Name
				if fd.Recv != nil && len(fd.Recv.List) > 0 {
					name = typeName(fd.Recv.List[0].Type) + "." + name
				}
				seen := map[string]bool{}
				note := func(e ast.Expr) {
					for {
						switch t := e.(type) {
						case *ast.IndexExpr:
							e = t.X
							continue
						case *ast.ParenExpr:
							e = t.X
							continue
						case *ast.StarExpr:
							e = t.X
							continue
						case *ast.SelectorExpr:
							// pkgvar.field = …  (a field of a package-level struct variable)
							if id, ok := t.X.(*ast.Ident); ok {
								if v, ok := p.TypesInfo.Uses[id].(*types.Var); ok && v.Parent() == p.Types.Scope() {
									e = t.X
									continue
								}
							}
						}
						break
					}
					id, ok := e.(*ast.Ident)
					if !ok {
						return
					}
					v, ok := p.TypesInfo.Uses[id].(*types.Var)
					if !ok || v.Pkg() == nil || v.Parent() != v.Pkg().Scope() {
						return
					}
					key := fn + "::" + id.Name
					if !seen[key] {
						seen[key] = true
						globalWrites = append(globalWrites, [2]string{key, name})
					}
				}
				ast.Inspect(fd.Body, func(n ast.Node) bool {
					switch t := n.(type) {
					case *ast.AssignStmt:
						if t.Tok.String() != ":=" {
							for _, l := range t.Lhs {
								note(l)
							}
						}
					case *ast.IncDecStmt:
						note(t.X)
					case *ast.CallExpr:
						if id, ok := t.Fun.(*ast.Ident); ok && id.Name == "delete" && len(t.Args) > 0 {
							note(t.Args[0])
						}
					}
					return true
				})
			}
		}
	}
	sort.Slice(globalWrites, func(i, j int) bool {
		if globalWrites[i][0] != globalWrites[j][0] {
			return globalWrites[i][0] < globalWrites[j][0]
		}
		return globalWrites[i][1] < globalWrites[j][1]
	})
	emitPairs("packageVarWriters", globalWrites, "every write (assignment, indexed assignment, increment, delete) to a package-level variable from a function other than init, consensus packages: file::variable → function")

	// slices handed out by a KVStore (`x := store.Get(key)`, any receiver whose name contains "store") that the same
	// function then writes through: the slice is the store's (cached, committed) copy, and a write through it is neither
	// journalled nor rolled back when the surrounding transaction is
	var inPlace [][2]string
	for _, p := range pkgs {
		for _, f := range p.Syntax {
			fn := strings.TrimPrefix(p.Fset.Position(f.Pos()).Filename, repo+"/")
			if skipFile("/" + fn) {
				continue
			}
			for _, d := range f.Decls {
				fd, ok := d.(*ast.FuncDecl)
				if !ok || fd.Body == nil {
					continue
				}
				name := fd.Name.Name
				if fd.Recv != nil && len(fd.Recv.List) > 0 {
					name = typeName(fd.Recv.List[0].Type) + "." + name
				}
				fromStore := map[string]bool{}
				ast.Inspect(fd.Body, func(n ast.Node) bool {
					as, ok := n.(*ast.AssignStmt)
					if !ok || len(as.Rhs) != 1 {
						return true
					}
					ce, ok := as.Rhs[0].(*ast.CallExpr)
					if !ok {
						return true
					}
					se, ok := ce.Fun.(*ast.SelectorExpr)
					if !ok || se.Sel.Name != "Get" || !strings.Contains(strings.ToLower(exprName(se.X)), "store") {
						return true
					}
					if id, ok := as.Lhs[0].(*ast.Ident); ok && id.Name != "_" {
						fromStore[id.Name] = true
					}
					return true
				})
				if len(fromStore) == 0 {
					continue
				}
				hit := map[string]bool{}
				ast.Inspect(fd.Body, func(n ast.Node) bool {
					switch t := n.(type) {
					case *ast.AssignStmt:
						for _, l := range t.Lhs {
							if ix, ok := l.(*ast.IndexExpr); ok {
								if id, ok := ix.X.(*ast.Ident); ok && fromStore[id.Name] {
									hit[id.Name] = true
								}
							}
						}
					case *ast.CallExpr:
						fun := exprName(t.Fun)
						if len(t.Args) > 0 && (strings.Contains(fun, "PutUint") || fun == "copy") {
							a := t.Args[0]
							if sl, ok := a.(*ast.SliceExpr); ok {
								a = sl.X
							}
							if id, ok := a.(*ast.Ident); ok && fromStore[id.Name] {
								hit[id.Name] = true
							}
						}
					}
					return true
				})
				for v := range hit {
					inPlace = append(inPlace, [2]string{fn + "::" + name, v})
				}
			}
		}
	}
	sort.Slice(inPlace, func(i, j int) bool {
		if inPlace[i][0] != inPlace[j][0] {
			return inPlace[i][0] < inPlace[j][0]
		}
		return inPlace[i][1] < inPlace[j][1]
	})
	emitPairs("storeSlicesWrittenInPlace", inPlace, "every function (consensus packages) that writes through a slice it obtained from a KVStore Get (indexed assignment, binary PutUint*, copy into it): file::function → variable")

	// bank-keeper methods called from Haqq's own packages (by the type of the receiver expression)
	bankMethods := map[string]bool{}
	for _, p := range pkgs {
		for _, f := range p.Syntax {
			fn := strings.TrimPrefix(p.Fset.Position(f.Pos()).Filename, repo+"/")
			if skipFile("/"+fn) || strings.HasPrefix(fn, "x/bank/") {
				continue
			}
			ast.Inspect(f, func(n ast.Node) bool {
				se, ok := n.(*ast.SelectorExpr)
				if !ok {
					return true
				}
				sel := p.TypesInfo.Selections[se]
				if sel == nil || sel.Kind() != types.MethodVal {
					return true
				}
				rt := sel.Recv().String()
				if strings.Contains(rt, "BankKeeper") || strings.Contains(rt, "x/bank/keeper") || strings.Contains(rt, "bankkeeper") {
					bankMethods[se.Sel.Name] = true
				}
				return true
			})
		}
	}
	var bm []string
	for m := range bankMethods {
		bm = append(bm, m)
	}
	sort.Strings(bm)
	emitStrs("bankMethodsUsedByHaqq", bm, "every method invoked on a bank keeper (any value whose type is a BankKeeper interface or a keeper of x/bank) from non-test code outside x/bank")
	for _, l := range []*[][2]string{&ranges, &nows, &gos, &writers, &localReads} {
		sort.Slice(*l, func(i, j int) bool { return (*l)[i][0]+(*l)[i][1] < (*l)[j][0]+(*l)[j][1] })
		*l = dedup(*l)
	}
	emitBool("determinismPackagesLoaded", loaded, "go/packages loaded and type-checked every consensus package (app, x, precompiles, types, utils, ethereum, crypto, encoding)")
	emitPairs("mapRangeSites", ranges, "every `range` over a map in non-test, non-generated, non-client consensus code: file::function::expression → does the function sort (sort.* / slices.*)")
	emitPairs("localTimeReads", localReads, "every calendar read (Year, Month, Day, Hour, Weekday, Format, …) on a time.Time built in the same function by time.Unix / UnixMilli / UnixMicro / Now without .UTC(): such a value is in the host's time zone: file, function::method")
	emitPairs("timeNowSites", nows, "every time.Now() call in the same code: file, function")
	emitPairs("goStmtSites", gos, "every `go` statement in the same code: file, function")
	emitPairs("keeperFieldWriters", writers, "every assignment / delete / maps.Copy to a field of a method receiver of type Keeper or Haqq (process-local state mutated after construction): file::Type.field, method")

	// the two sorted iterations of StateDB.Commit
	sortedDirties, sortedKeys := false, false
	if fd := funcDecl("x/evm/statedb/statedb.go", "StateDB", "Commit"); fd != nil {
		ast.Inspect(fd.Body, func(n ast.Node) bool {
			if rs, ok := n.(*ast.RangeStmt); ok {
				switch {
				case strings.HasSuffix(exprName(rs.X), "journal.sortedDirties()"):
					sortedDirties = true
				case strings.HasSuffix(exprName(rs.X), "dirtyStorage.SortedKeys()"):
					sortedKeys = true
				}
			}
			return true
		})
	}
	emitBool("statedbCommitRangesSortedDirties", sortedDirties, "StateDB.Commit iterates s.journal.sortedDirties()")
	emitBool("statedbCommitRangesSortedKeys", sortedKeys, "StateDB.Commit iterates obj.dirtyStorage.SortedKeys()")

	// module orders of app.go
	order := func(method string) []string {
		var out []string
		f := parse("app/app.go")
		if f == nil {
			return out
		}
		ast.Inspect(f, func(n ast.Node) bool {
			if c, ok := n.(*ast.CallExpr); ok && strings.HasSuffix(callName(c), "."+method) {
				for _, a := range c.Args {
					out = append(out, src(a))
				}
			}
			return true
		})
		return out
	}
	emitStrs("appOrderBeginBlockers", order("SetOrderBeginBlockers"), "modules passed to SetOrderBeginBlockers, in order")
	emitStrs("appOrderEndBlockers", order("SetOrderEndBlockers"), "modules passed to SetOrderEndBlockers, in order")
	emitStrs("appOrderInitGenesis", order("SetOrderInitGenesis"), "modules passed to SetOrderInitGenesis, in order")

	// non-test callers of the dynamic extension registration
	var dyn []string
	for _, p := range pkgs {
		for _, f := range p.Syntax {
			fn := strings.TrimPrefix(p.Fset.Position(f.Pos()).Filename, repo+"/")
			if skipFile("/" + fn) {
				continue
			}
			for _, d := range f.Decls {
				fd, ok := d.(*ast.FuncDecl)
				if !ok || fd.Body == nil {
					continue
				}
				for _, nm := range []string{"AddEVMExtensions", "RegisterERC20Extensions"} {
					if len(calls(fd.Body, nm)) > 0 {
						dyn = append(dyn, fn+"::"+fd.Name.Name+"→"+nm)
					}
				}
			}
		}
	}
	sort.Strings(dyn)
	emitStrs("dynamicExtensionCallers", dyn, "non-test functions that call AddEVMExtensions / RegisterERC20Extensions (registration of EVM extensions after construction)")
}

func dedup(in [][2]string) [][2]string {
	var out [][2]string
	for i, x := range in {
		if i == 0 || x != in[i-1] {
			out = append(out, x)
		}
	}
	return out
}

func init() { moreFacts = append(moreFacts, factsUpgradeWorkers) }

// factsUpgradeWorkers: the goroutine workers of the v1.7.5 upgrade handler append to shared slices; do they hold a
// mutex while doing so?
func factsUpgradeWorkers() {
	locked := false
	if fd := funcDecl("app/upgrades/v1.7.5/handler.go", "", "TurnOffLiquidVesting"); fd != nil {
		ast.Inspect(fd.Body, func(n ast.Node) bool {
			fl, ok := n.(*ast.FuncLit)
			if !ok {
				return true
			}
			// the worker: a function literal ranging over the channel
			ast.Inspect(fl.Body, func(m ast.Node) bool {
				rs, ok := m.(*ast.RangeStmt)
				if !ok {
					return true
				}
				var order []string
				for _, st := range rs.Body.List {
					s := src(st)
					switch {
					case strings.Contains(s, ".Lock()"):
						order = append(order, "lock")
					case strings.Contains(s, ".Unlock()"):
						order = append(order, "unlock")
					case strings.Contains(s, "tryFoundFixScheduleForVestingAccount(") || strings.Contains(s, "processAccount("):
						order = append(order, "append")
					}
				}
				if strings.Join(order, ",") == "lock,append,append,unlock" {
					locked = true
				}
				return true
			})
			return true
		})
	}
	emitBool("upgrade175WorkersLockAppends", locked, "the goroutine workers of the v1.7.5 upgrade handler hold a mutex around the two calls that append to the shared slices")
}
