package main

import (
	"go/ast"
	"go/parser"
	"go/token"
	"os"
	"path/filepath"
	"sort"
	"strings"
)

// narrowing conversions of 256-bit arguments in the precompiles (x.Int64(), x.Uint64() on a *big.Int): is each one guarded by a
// range test (if !x.IsInt64() / !x.IsUint64() { return … }) earlier in the same function?
func init() { moreFacts = append(moreFacts, factsPrecompileNarrowing) }

func factsPrecompileNarrowing() {
	var out [][2]string
	files, _ := filepath.Glob(filepath.Join(repo, "precompiles", "*", "*.go"))
	sort.Strings(files)
	for _, fn := range files {
		if strings.HasSuffix(fn, "_test.go") || strings.Contains(fn, "testutil") {
			continue
		}
		b, err := os.ReadFile(fn)
		if err != nil {
			continue
		}
		fs := token.NewFileSet()
		f, err := parser.ParseFile(fs, fn, b, 0)
		if err != nil {
			continue
		}
		text := func(n ast.Node) string { return string(b[fs.Position(n.Pos()).Offset:fs.Position(n.End()).Offset]) }
		for _, d := range f.Decls {
			fd, ok := d.(*ast.FuncDecl)
			if !ok || fd.Body == nil {
				continue
			}
			guards := map[string]token.Pos{}
			ast.Inspect(fd.Body, func(n ast.Node) bool {
				switch x := n.(type) {
				case *ast.IfStmt:
					c := strings.Join(strings.Fields(text(x.Cond)), "")
					returns := false
					for _, st := range x.Body.List {
						if _, ok := st.(*ast.ReturnStmt); ok {
							returns = true
						}
					}
					for _, m := range []string{"IsInt64()", "IsUint64()"} {
						if returns && strings.HasPrefix(c, "!") && strings.HasSuffix(c, "."+m) {
							guards[strings.TrimSuffix(strings.TrimPrefix(c, "!"), "."+m)+"/"+strings.TrimPrefix(strings.TrimSuffix(m, "()"), "Is")] = x.End()
						}
					}
				case *ast.CallExpr:
					sel, ok := x.Fun.(*ast.SelectorExpr)
					if !ok || len(x.Args) != 0 || (sel.Sel.Name != "Int64" && sel.Sel.Name != "Uint64") {
						return true
					}
					recv := strings.Join(strings.Fields(text(sel.X)), "")
					if strings.Contains(recv, "(") {
						return true // a method result (Dec / Int wrappers), not a decoded argument
					}
					v := "unguarded"
					if p, ok := guards[recv+"/"+sel.Sel.Name]; ok && p < x.Pos() {
						v = "guarded"
					}
					rel, _ := filepath.Rel(repo, fn)
					out = append(out, [2]string{rel + ":" + fd.Name.Name + ":" + recv + "." + sel.Sel.Name + "()", v})
				}
				return true
			})
		}
	}
	emitPairs("precompileNarrowingConversions", out, "per narrowing conversion of a big integer in the precompile packages: guarded by a range test that returns, or not")
}
