package main

import (
	"fmt"
	"go/ast"
	"sort"
	"strings"
)

// Facts for C02 / C05: how the stateful precompiles keep the EVM's StateDB and the bank in step.
func init() { moreFacts = append(moreFacts, factsPrecompiles) }

// Facts for C05: a failed Ethereum transaction runs on a branch of the state that is dropped; for C16: what the staking
// precompile's validator queries copy out of the module's validator.
func init() { moreFacts = append(moreFacts, factsTxBranch) }

func factsTxBranch() {
	cond, commitGuard := "unrecognised", false
	if fd := funcDecl("x/evm/keeper/state_transition.go", "Keeper", "ApplyTransaction"); fd != nil {
		ast.Inspect(fd.Body, func(n ast.Node) bool {
			ifs, ok := n.(*ast.IfStmt)
			if !ok {
				return true
			}
			if strings.Contains(src(ifs.Body), "tmpCtx, commit = ctx.CacheContext()") && !strings.Contains(src(ifs.Body), "if ") {
				cond = strings.Join(strings.Fields(src(ifs.Cond)), " ")
			}
			// commit() is reached only under `!res.Failed()` and only when the hooks returned no error
			if strings.Join(strings.Fields(src(ifs.Cond)), " ") == "!res.Failed()" {
				b := src(ifs.Body)
				if strings.Count(b, "commit()") == 1 && strings.Contains(b, "else if commit != nil") && strings.Contains(b, "k.PostTxProcessing(tmpCtx, msg, receipt); err != nil") {
					commitGuard = true
				}
			}
			return true
		})
		if strings.Count(src(fd.Body), "commit()") != 1 {
			commitGuard = false
		}
	}
	emitStr("evmApplyTxBranchCondition", cond, "ApplyTransaction: the condition under which the message runs on a branch of the state (ctx.CacheContext)")
	emitBool("evmApplyTxCommitsOnlyOnSuccess", commitGuard, "ApplyTransaction: the only commit() of that branch sits under !res.Failed(), after PostTxProcessing returned no error")
	hooks := false
	if f := parse("app/app.go"); f != nil {
		ast.Inspect(f, func(n ast.Node) bool {
			if as, ok := n.(*ast.AssignStmt); ok && len(as.Lhs) == 1 && exprName(as.Lhs[0]) == "app.EvmKeeper" {
				t := src(as.Rhs[0])
				if strings.Contains(t, "app.EvmKeeper.SetHooks(") && strings.Contains(t, "NewMultiEvmHooks(") && strings.Contains(t, "app.Erc20Keeper.Hooks()") {
					hooks = true
				}
			}
			return true
		})
	}
	emitBool("appInstallsEvmHooks", hooks, "app.go installs at least the ERC20 hooks on the EVM keeper (so that k.hooks != nil in ApplyTransaction)")

	// the ValidatorInfo literals of the staking precompile (validator / validators queries): field → source expression
	var fields [][2]string
	if f := parse("precompiles/staking/types.go"); f != nil {
		ast.Inspect(f, func(n ast.Node) bool {
			cl, ok := n.(*ast.CompositeLit)
			if !ok || typeName(cl.Type) != "ValidatorInfo" {
				return true
			}
			for _, e := range cl.Elts {
				if kv, ok := e.(*ast.KeyValueExpr); ok {
					v := strings.Join(strings.Fields(src(kv.Value)), " ")
					v = strings.ReplaceAll(v, "res.Validator.", "v.")
					if k := exprName(kv.Key); k == "Tokens" || k == "DelegatorShares" || k == "Status" || k == "Jailed" || k == "OperatorAddress" {
						fields = append(fields, [2]string{k, v})
					}
				}
			}
			return true
		})
	}
	sort.Slice(fields, func(i, j int) bool {
		if fields[i][0] != fields[j][0] {
			return fields[i][0] < fields[j][0]
		}
		return fields[i][1] < fields[j][1]
	})
	emitPairs("stakingValidatorInfoFields", fields, "every ValidatorInfo composite literal in precompiles/staking/types.go: field → expression (res.Validator. normalised to v.), for the fields the C16 comparison reads")
}

func factsPrecompiles() {
	// every transaction method that runs a Cosmos message which can move coins
	methods := map[string][]string{
		"precompiles/staking/tx.go":      {"CreateValidator", "Delegate", "Undelegate", "Redelegate", "CancelUnbondingDelegation"},
		"precompiles/distribution/tx.go": {"ClaimRewards", "WithdrawDelegatorRewards", "WithdrawValidatorCommission"},
		"precompiles/ics20/tx.go":        {"Transfer"},
	}
	var out [][2]string
	for file, ms := range methods {
		for _, m := range ms {
			v := "missing"
			if fd := funcDecl(file, "Precompile", m); fd != nil {
				sync := len(calls(fd.Body, "SyncBalances")) > 0
				manual := len(calls(fd.Body, "SubBalance"))+len(calls(fd.Body, "AddBalance")) > 0
				// the sync must come after the last call that runs the Cosmos message and before the final return
				// the message's writes must have reached the store the StateDB reads before the sync looks: a branch of the
				// state (CacheContext) written back later, or any deferred call, runs after it
				// (a branch that is written back by a top-level statement placed before the sync is fine: the message's
				// writes are in the store by the time the sync looks)
				late := false
				if strings.Contains(src(fd.Body), "CacheContext(") {
					writeAt, syncAt := -1, -1
					for i, st := range fd.Body.List {
						t := strings.TrimSpace(src(st))
						if t == "writeMsg()" {
							writeAt = i
						}
						if strings.Contains(t, "SyncBalances()") {
							syncAt = i
						}
					}
					late = !(writeAt >= 0 && syncAt > writeAt) || strings.Count(src(fd.Body), "CacheContext(") != 1
				}
				ast.Inspect(fd.Body, func(n ast.Node) bool {
					if _, ok := n.(*ast.DeferStmt); ok {
						late = true
					}
					return true
				})
				switch {
				case sync && late:
					v = "sync-before-branched-or-deferred-write"
				case sync && !manual:
					v = "sync"
				case sync && manual:
					v = "sync+manual-mirror"
				case manual:
					v = "manual-mirror"
				default:
					v = "none"
				}
			}
			out = append(out, [2]string{file + "::" + m, v})
		}
	}
	sort.Slice(out, func(i, j int) bool { return out[i][0] < out[j][0] })
	// in which order a spend by grant consults the authorization and runs the message: top-level statements of the method
	var order [][2]string
	for _, m := range []string{"Delegate", "Undelegate", "Redelegate", "CancelUnbondingDelegation"} {
		v := "missing"
		if fd := funcDecl("precompiles/staking/tx.go", "Precompile", m); fd != nil {
			check, accept, run, update := -1, -1, -1, -1
			for i, st := range fd.Body.List {
				t := src(st)
				if ifs, ok := st.(*ast.IfStmt); ok && strings.TrimSpace(src(ifs.Cond)) == "!isCallerOrigin" && ifs.Else == nil {
					// statements of the guarded block, in order; each must bail out on error
					for _, in := range ifs.Body.List {
						u := src(in)
						switch {
						case strings.Contains(u, "authorization.CheckAuthzAndAllowanceForGranter(") && check < 0:
							check = i
						case strings.Contains(u, "stakeAuthz.Accept(ctx, msg)") && strings.Contains(u, "err != nil") && strings.Contains(u, "return nil, err") && accept < 0:
							accept = i
						case strings.Contains(u, "p.UpdateStakingAuthorization(") && strings.Contains(u, "return nil, err") && update < 0:
							update = i
						}
					}
					continue
				}
				if strings.Contains(t, "msgSrv.") && (strings.Contains(t, "sdk.WrapSDKContext(ctx), msg)") || strings.Contains(t, "sdk.WrapSDKContext(msgCtx), msg)")) && run < 0 {
					run = i
				}
			}
			switch {
			case check >= 0 && accept >= check && run > accept && update > run:
				v = "check; accept; run; update"
			case check >= 0 && run > check && update > run && accept < 0:
				v = "check; run; update(accept)"
			default:
				v = fmt.Sprintf("unrecognised(check=%d accept=%d run=%d update=%d)", check, accept, run, update)
			}
		}
		order = append(order, [2]string{m, v})
	}
	emitPairs("stakingGrantSpendOrder", order, "per staking precompile method that can spend by grant: the order of CheckAuthzAndAllowanceForGranter, StakeAuthorization.Accept, the message server and UpdateStakingAuthorization among the method's top-level statements")
	var branch [][2]string
	for file, ms := range methods {
		for _, m := range ms {
			v := "missing"
			if fd := funcDecl(file, "Precompile", m); fd != nil {
				b := src(fd.Body)
				switch {
				case strings.Count(b, "msgCtx, writeMsg := ctx.CacheContext()") == 1 && strings.Count(b, "writeMsg()") == 1 &&
					!strings.Contains(b, "msgSrv.") || (strings.Count(b, "msgCtx, writeMsg := ctx.CacheContext()") == 1 && strings.Count(b, "writeMsg()") == 1 && strings.Contains(b, "(sdk.WrapSDKContext(msgCtx), msg)") && !strings.Contains(b, "(sdk.WrapSDKContext(ctx), msg)")):
					v = "message-on-branch"
				default:
					v = "message-on-the-transaction-context"
				}
			}
			branch = append(branch, [2]string{file + "::" + m, v})
		}
	}
	sort.Slice(branch, func(i, j int) bool { return branch[i][0] < branch[j][0] })
	emitPairs("precompileMessageOnBranch", branch, "per precompile transaction method that runs a Cosmos message: does the message run on a branch of the state (ctx.CacheContext) that is written back by one statement after it succeeded")
	emitPairs("precompileBalanceSync", out, "per coin-moving precompile transaction method: how the cached EVM balances are brought in step with the bank after the Cosmos message (sync = StateDB.SyncBalances, manual-mirror = AddBalance/SubBalance of one account)")

	// Run() of every stateful precompile commits the StateDB on entry
	var commits [][2]string
	for _, f := range []string{"precompiles/bank/bank.go", "precompiles/distribution/distribution.go", "precompiles/ics20/ics20.go", "precompiles/staking/staking.go"} {
		v := "no"
		if fd := funcDecl(f, "Precompile", "Run"); fd != nil {
			ast.Inspect(fd.Body, func(n ast.Node) bool {
				if c, ok := n.(*ast.CallExpr); ok && strings.HasSuffix(callName(c), "stateDB.Commit") {
					v = "yes"
				}
				return true
			})
		}
		commits = append(commits, [2]string{f, v})
	}
	emitPairs("precompileRunCommits", commits, "does the precompile's Run commit the StateDB before running the method")

	// SyncBalances itself: iterates the cached objects in sorted order and journals each change through SetBalance
	ok := false
	if fd := funcDecl("x/evm/statedb/statedb.go", "StateDB", "SyncBalances"); fd != nil {
		b := src(fd.Body)
		ok = strings.Contains(b, "sort.Slice") && strings.Contains(b, "obj.SetBalance(") && strings.Contains(b, "s.keeper.GetAccount(s.ctx, addr)")
	}
	emitBool("statedbSyncBalancesShape", ok, "StateDB.SyncBalances walks the cached objects in sorted order, reads the keeper's account and journals the change with SetBalance")
}

// Facts for C16: how each precompile transaction method builds its native message from the ABI arguments, and
// that the method then hands exactly that message to the module's own message server.
func init() { moreFacts = append(moreFacts, factsPrecompileMapping) }

func factsPrecompileMapping() {
	norm := func(s string) string { return strings.Join(strings.Fields(s), " ") }
	type ctor struct{ file, fn, msg string }
	ctors := []ctor{
		{"precompiles/staking/types.go", "NewMsgDelegate", "MsgDelegate"},
		{"precompiles/staking/types.go", "NewMsgUndelegate", "MsgUndelegate"},
		{"precompiles/staking/types.go", "NewMsgRedelegate", "MsgBeginRedelegate"},
		{"precompiles/staking/types.go", "NewMsgCancelUnbondingDelegation", "MsgCancelUnbondingDelegation"},
		{"precompiles/distribution/types.go", "NewMsgSetWithdrawAddress", "MsgSetWithdrawAddress"},
		{"precompiles/distribution/types.go", "NewMsgWithdrawDelegatorReward", "MsgWithdrawDelegatorReward"},
		{"precompiles/distribution/types.go", "NewMsgWithdrawValidatorCommission", "MsgWithdrawValidatorCommission"},
	}
	var lits [][2]string
	for _, c := range ctors {
		v := "missing"
		if fd := funcDecl(c.file, "", c.fn); fd != nil {
			ast.Inspect(fd.Body, func(n ast.Node) bool {
				if cl, ok := n.(*ast.CompositeLit); ok && strings.HasSuffix(typeName(cl.Type), c.msg) {
					v = norm(src(cl))
					return false
				}
				return true
			})
			if !strings.Contains(src(fd.Body), "msg.ValidateBasic()") {
				v += " [no ValidateBasic]"
			}
		}
		lits = append(lits, [2]string{c.fn, v})
	}
	emitPairs("precompileMsgLiterals", lits, "the native message literal each precompile argument decoder builds (whitespace-normalised source)")

	// the transaction methods run the module's own message server on that message
	type run struct{ file, method, ctor, server, call string }
	runs := []run{
		{"precompiles/staking/tx.go", "Delegate", "NewMsgDelegate", "stakingkeeper.NewMsgServerImpl", "msgSrv.Delegate"},
		{"precompiles/staking/tx.go", "Undelegate", "NewMsgUndelegate", "stakingkeeper.NewMsgServerImpl", "msgSrv.Undelegate"},
		{"precompiles/staking/tx.go", "Redelegate", "NewMsgRedelegate", "stakingkeeper.NewMsgServerImpl", "msgSrv.BeginRedelegate"},
		{"precompiles/staking/tx.go", "CancelUnbondingDelegation", "NewMsgCancelUnbondingDelegation", "stakingkeeper.NewMsgServerImpl", "msgSrv.CancelUnbondingDelegation"},
		{"precompiles/distribution/tx.go", "SetWithdrawAddress", "NewMsgSetWithdrawAddress", "distributionkeeper.NewMsgServerImpl", "msgSrv.SetWithdrawAddress"},
		{"precompiles/distribution/tx.go", "WithdrawDelegatorRewards", "NewMsgWithdrawDelegatorReward", "distributionkeeper.NewMsgServerImpl", "msgSrv.WithdrawDelegatorReward"},
		{"precompiles/distribution/tx.go", "WithdrawValidatorCommission", "NewMsgWithdrawValidatorCommission", "distributionkeeper.NewMsgServerImpl", "msgSrv.WithdrawValidatorCommission"},
	}
	var rs [][2]string
	for _, r := range runs {
		v := "missing"
		if fd := funcDecl(r.file, "Precompile", r.method); fd != nil {
			c1, c2, c3 := calls(fd.Body, r.ctor), calls(fd.Body, "NewMsgServerImpl"), calls(fd.Body, strings.TrimPrefix(r.call, "msgSrv."))
			switch {
			case len(c1) == 1 && len(c2) == 1 && len(c3) == 1 && callName(c2[0]) == r.server && callName(c3[0]) == r.call &&
				c1[0].Pos() < c3[0].Pos() && len(c3[0].Args) == 2 && exprName(c3[0].Args[1]) == "msg":
				v = "decoder→" + r.server + "→" + r.call + "(msg)"
			default:
				v = "other"
			}
		}
		rs = append(rs, [2]string{r.method, v})
	}
	emitPairs("precompileRunsNativeServer", rs, "per precompile transaction method: the decoded message is passed unchanged to the module's own message server")
}
