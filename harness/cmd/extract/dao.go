package main

// factsDao: the order of the two ledger writes in ucdao TransferOwnership.
func factsDao() {
	fd := funcDecl("x/ucdao/keeper/keeper.go", "BaseKeeper", "TransferOwnership")
	creditFirst, recognised := true, false
	if fd != nil {
		var credit, debit int
		for _, c := range calls(fd.Body, "addCoinsToAccount") {
			if argIs(c, 1, "newOwner") && credit == 0 {
				credit = int(c.Pos())
			}
		}
		for _, c := range calls(fd.Body, "setBalance") {
			if argIs(c, 1, "owner") && debit == 0 {
				debit = int(c.Pos())
			}
		}
		if credit != 0 && debit != 0 {
			recognised = true
			creditFirst = credit < debit
		}
	}
	emitBool("daoTransferRecognised", recognised, "x/ucdao/keeper/keeper.go TransferOwnership has one credit of newOwner (addCoinsToAccount) and one overwrite of owner (setBalance)")
	emitBool("daoTransferCreditFirst", creditFirst, "the recipient is credited before the owner's balance is overwritten with the precomputed leftovers (true also when the shape was not recognised)")
}
