package main

import (
	"go/ast"
	"strings"
)

// round-10 facts: where the Cosmos fee floor looks at the charged amount, and what DAO genesis does with a repeated address
func init() { moreFacts = append(moreFacts, factsChargedFloorScope, factsDaoGenesisRepeated) }

// MinGasPriceDecorator.AnteHandle: the comparison of the charged amount with the required fee — inside the loop over the
// extension options (only transactions carrying the option), outside it (every transaction), or absent
func factsChargedFloorScope() {
	v := "declared-fee-only"
	if fd := funcDecl("app/ante/cosmos/min_price.go", "MinGasPriceDecorator", "AnteHandle"); fd != nil {
		isChargedCheck := func(ifs *ast.IfStmt) bool {
			c := strings.Join(strings.Fields(src(ifs)), " ")
			if !strings.Contains(c, "charged") || !strings.Contains(c, ".LT(required)") {
				return false
			}
			for _, st := range ifs.Body.List {
				if _, ok := st.(*ast.ReturnStmt); ok {
					return true
				}
			}
			return false
		}
		var walk func(n ast.Node, inOptLoop bool)
		walk = func(n ast.Node, inOptLoop bool) {
			ast.Inspect(n, func(m ast.Node) bool {
				if m == n {
					return true
				}
				switch x := m.(type) {
				case *ast.RangeStmt:
					walk(x.Body, inOptLoop || strings.Contains(src(x.X), "GetExtensionOptions()"))
					return false
				case *ast.IfStmt:
					if isChargedCheck(x) {
						if inOptLoop {
							v = "charged-amount-of-transactions-with-the-option"
						} else if strings.Contains(src(fd.Body), "math.NewInt(stdmath.MaxInt64)") {
							v = "charged-amount-of-every-transaction"
						} else {
							v = "unrecognised"
						}
						return false
					}
				}
				return true
			})
		}
		walk(fd.Body, false)
	}
	emitStr("cosmosFloorChargedScope", v, "MinGasPriceDecorator.AnteHandle: which transactions have the amount they will be charged compared with the floor")
}

// BaseKeeper.InitGenesis of the DAO module: inside the loop over the listed balances, is an address seen before refused (panic)?
func factsDaoGenesisRepeated() {
	v := "missing"
	if fd := funcDecl("x/ucdao/keeper/genesis.go", "BaseKeeper", "InitGenesis"); fd != nil {
		v = "taken"
		ast.Inspect(fd.Body, func(n ast.Node) bool {
			rs, ok := n.(*ast.RangeStmt)
			if !ok || !strings.Contains(src(rs.X), "genState.Balances") {
				return true
			}
			ast.Inspect(rs.Body, func(m ast.Node) bool {
				ifs, ok := m.(*ast.IfStmt)
				if !ok || ifs.Init == nil {
					return true
				}
				as, ok := ifs.Init.(*ast.AssignStmt)
				if !ok || len(as.Lhs) != 2 || len(as.Rhs) != 1 {
					return true
				}
				ix, ok := as.Rhs[0].(*ast.IndexExpr)
				if !ok || !strings.Contains(src(ix.Index), "addr") || src(as.Lhs[1]) != strings.TrimSpace(src(ifs.Cond)) {
					return true
				}
				for _, st := range ifs.Body.List {
					if es, ok := st.(*ast.ExprStmt); ok {
						if call, ok := es.X.(*ast.CallExpr); ok && src(call.Fun) == "panic" {
							v = "refused"
						}
					}
				}
				return true
			})
			return false
		})
	}
	emitStr("daoGenesisRepeatedAddress", v, "DAO InitGenesis: what happens to a genesis that lists an address a second time")
}
