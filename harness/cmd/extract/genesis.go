package main

import (
	"go/ast"
	"sort"
	"strings"
)

// Facts for C19: for every Haqq module, which fields of its GenesisState the export fills and the import reads.
func init() { moreFacts = append(moreFacts, factsGenesis) }

type genMod struct {
	name                   string
	pb                     string // file with the GenesisState struct
	exportFile, exportRecv string
	initFile, initRecv     string
}

// which accounts the EVM export walks: the type the iteration callback asserts (an interface every account kind with a
// code hash implements, or one concrete kind)
func init() { moreFacts = append(moreFacts, factsEvmExportAccounts) }

func factsEvmExportAccounts() {
	v := "unrecognised"
	if fd := funcDecl("x/evm/genesis.go", "", "ExportGenesis"); fd != nil {
		ast.Inspect(fd.Body, func(n ast.Node) bool {
			ta, ok := n.(*ast.TypeAssertExpr)
			if ok && exprName(ta.X) == "account" && ta.Type != nil {
				v = strings.Join(strings.Fields(src(ta.Type)), "")
			}
			return true
		})
	}
	emitStr("evmExportAccountAssertion", v, "x/evm ExportGenesis: the type asserted on each account of the auth keeper's iteration (accounts failing it are skipped)")
}

func factsGenesis() {
	mods := []genMod{
		{"coinomics", "x/coinomics/types/genesis.pb.go", "x/coinomics/genesis.go", "", "x/coinomics/genesis.go", ""},
		{"evm", "x/evm/types/genesis.pb.go", "x/evm/genesis.go", "", "x/evm/genesis.go", ""},
		{"feemarket", "x/feemarket/types/genesis.pb.go", "x/feemarket/genesis.go", "", "x/feemarket/genesis.go", ""},
		{"erc20", "x/erc20/types/genesis.pb.go", "x/erc20/genesis.go", "", "x/erc20/genesis.go", ""},
		{"liquidvesting", "x/liquidvesting/types/genesis.pb.go", "x/liquidvesting/genesis.go", "", "x/liquidvesting/genesis.go", ""},
		{"epochs", "x/epochs/types/genesis.pb.go", "x/epochs/genesis.go", "", "x/epochs/genesis.go", ""},
		{"ucdao", "x/ucdao/types/genesis.pb.go", "x/ucdao/keeper/genesis.go", "BaseKeeper", "x/ucdao/keeper/genesis.go", "BaseKeeper"},
	}
	var out [][2]string
	for _, m := range mods {
		fields := structFields(m.pb, "GenesisState")
		exported := map[string]bool{}
		if fd := funcDecl(m.exportFile, m.exportRecv, "ExportGenesis"); fd != nil {
			ast.Inspect(fd.Body, func(n ast.Node) bool {
				switch t := n.(type) {
				case *ast.CompositeLit:
					if strings.HasSuffix(typeName(t.Type), "GenesisState") {
						for _, e := range t.Elts {
							if kv, ok := e.(*ast.KeyValueExpr); ok {
								exported[exprName(kv.Key)] = true
							}
						}
					}
				case *ast.CallExpr:
					// types.NewGenesisState(a, b, c): the constructor's own literal says which fields the arguments fill
					if strings.HasSuffix(callName(t), "NewGenesisState") {
						if c := funcDecl("x/"+m.name+"/types/genesis.go", "", "NewGenesisState"); c != nil && len(t.Args) == c.Type.Params.NumFields() {
							ast.Inspect(c.Body, func(x ast.Node) bool {
								if cl, ok := x.(*ast.CompositeLit); ok && strings.HasSuffix(typeName(cl.Type), "GenesisState") {
									for _, e := range cl.Elts {
										if kv, ok := e.(*ast.KeyValueExpr); ok {
											exported[exprName(kv.Key)] = true
										}
									}
								}
								return true
							})
						}
					}
				}
				return true
			})
		}
		imported := map[string]bool{}
		if fd := funcDecl(m.initFile, m.initRecv, "InitGenesis"); fd != nil {
			// the parameter whose type is (a pointer to) GenesisState
			param := ""
			for _, p := range fd.Type.Params.List {
				if strings.HasSuffix(typeName(p.Type), "GenesisState") && len(p.Names) > 0 {
					param = p.Names[0].Name
				}
			}
			ast.Inspect(fd.Body, func(n ast.Node) bool {
				if se, ok := n.(*ast.SelectorExpr); ok {
					if id, ok := se.X.(*ast.Ident); ok && id.Name == param {
						imported[se.Sel.Name] = true
					}
				}
				return true
			})
		}
		for _, f := range fields {
			v := "neither"
			switch {
			case exported[f] && imported[f]:
				v = "exported+imported"
			case exported[f]:
				v = "exported-only"
			case imported[f]:
				v = "imported-only"
			}
			out = append(out, [2]string{m.name + "." + f, v})
		}
	}
	sort.Slice(out, func(i, j int) bool { return out[i][0] < out[j][0] })
	emitPairs("genesisFieldFacts", out, "for every field of a Haqq module's GenesisState: is it filled by ExportGenesis and read by InitGenesis")

	keeps := false
	if fd := funcDecl("x/epochs/genesis.go", "", "InitGenesis"); fd != nil {
		ast.Inspect(fd.Body, func(n ast.Node) bool {
			if is, ok := n.(*ast.IfStmt); ok && strings.Contains(src(is.Cond), "!epoch.EpochCountingStarted") &&
				strings.Contains(src(is.Body), "epoch.CurrentEpochStartHeight = ctx.BlockHeight()") {
				keeps = true
			}
			return true
		})
		// an unconditional overwrite anywhere else cancels the guard
		for _, st := range fd.Body.List {
			if rs, ok := st.(*ast.RangeStmt); ok {
				for _, inner := range rs.Body.List {
					if as, ok := inner.(*ast.AssignStmt); ok && strings.Contains(src(as), "epoch.CurrentEpochStartHeight = ctx.BlockHeight()") {
						keeps = false
					}
				}
			}
		}
	}
	emitBool("epochsInitKeepsStartHeight", keeps, "epochs InitGenesis overwrites CurrentEpochStartHeight only for an epoch that has not started counting")
}

// structFields lists the exported field names of a struct type in a file.
func structFields(rel, name string) []string {
	f := parse(rel)
	var out []string
	if f == nil {
		return out
	}
	ast.Inspect(f, func(n ast.Node) bool {
		ts, ok := n.(*ast.TypeSpec)
		if !ok || ts.Name.Name != name {
			return true
		}
		if st, ok := ts.Type.(*ast.StructType); ok {
			for _, fl := range st.Fields.List {
				for _, nm := range fl.Names {
					if nm.IsExported() && !strings.HasPrefix(nm.Name, "XXX_") {
						out = append(out, nm.Name)
					}
				}
			}
		}
		return false
	})
	return out
}
