package main

import (
	"go/ast"
	"strings"
)

// factsAll collects the remaining fact groups (one function per subsystem, added as models grow).
var moreFacts []func()

func factsAll() {
	factsVesting()
	for _, f := range moreFacts {
		f()
	}
}

func containsSrc(n ast.Node, needle string) bool { return strings.Contains(src(n), needle) }

func init() { moreFacts = append(moreFacts, factsFeeMarket) }

// factsFeeMarket: does Params.Validate reject a zero elasticity multiplier?
func factsFeeMarket() {
	rejects := false
	if fd := funcDecl("x/feemarket/types/params.go", "Params", "Validate"); fd != nil {
		rejects = containsSrc(fd.Body, "p.ElasticityMultiplier == 0")
	}
	rejects2 := false
	if fd := funcDecl("x/feemarket/types/params.go", "", "validateElasticityMultiplier"); fd != nil {
		rejects2 = containsSrc(fd.Body, "== 0")
	}
	emitBool("feemarketValidateRejectsZeroElasticity", rejects && rejects2, "feemarket Params.Validate and the param-set validator both reject ElasticityMultiplier == 0")
}
