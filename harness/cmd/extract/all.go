package main

// factsAll collects the remaining fact groups (one function per subsystem, added as models grow).
func factsAll() {
	factsVesting()
}
