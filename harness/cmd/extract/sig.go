package main

import (
	"go/ast"
	"strings"
)

// Facts for C03: the shape of the Ethereum-route sequence and signature decorators.
func init() { moreFacts = append(moreFacts, factsSig) }

func factsSig() {
	shape := "unrecognised"
	if fd := funcDecl("app/ante/evm/eth.go", "EthIncrementSenderSequenceDecorator", "AnteHandle"); fd != nil {
		// the body must be: for _, msg := range tx.GetMsgs() { … } ; return next(...)
		for _, st := range fd.Body.List {
			rs, ok := st.(*ast.RangeStmt)
			if !ok || !strings.HasSuffix(exprName(rs.X), "tx.GetMsgs()") {
				continue
			}
			// top-level statements of the loop body, in order
			var getAcc, cmp, set int = -1, -1, -1
			for i, inner := range rs.Body.List {
				s := src(inner)
				switch {
				case strings.Contains(s, ".GetAccount(ctx,") && isAssign(inner):
					getAcc = i
				case isIf(inner) && strings.Contains(src(inner.(*ast.IfStmt).Cond), "txData.GetNonce() != nonce") && strings.Contains(s, "return ctx,"):
					cmp = i
				case isIf(inner) && strings.Contains(s, "acc.SetSequence(nonce + 1)"):
					set = i
				}
			}
			if getAcc >= 0 && cmp > getAcc && set > cmp {
				shape = "for-each-msg: GetAccount; nonce != sequence → reject; SetSequence(nonce+1)"
			} else {
				shape = "loop without an unconditional per-message account load and nonce comparison"
			}
		}
	}
	emitStr("ethSeqDecoratorShape", shape, "EthIncrementSenderSequenceDecorator.AnteHandle: what the loop over the messages does, as top-level statements of the loop body")

	sv := "unrecognised"
	if fd := funcDecl("app/ante/evm/sigverify.go", "EthSigVerificationDecorator", "AnteHandle"); fd != nil {
		b := src(fd.Body)
		// the sender recovery and the assignment of From must be unconditional top-level statements of the per-message
		// loop (a From that is only set when empty, or only in some modes, leaves an unsigned wire field in force)
		recoverAt, fromAt := -1, -1
		for _, st := range fd.Body.List {
			rs, ok := st.(*ast.RangeStmt)
			if !ok || !strings.HasSuffix(exprName(rs.X), "tx.GetMsgs()") {
				continue
			}
			for i, inner := range rs.Body.List {
				s := strings.TrimSpace(src(inner))
				switch {
				case isAssign(inner) && s == "sender, err := signer.Sender(ethTx)":
					recoverAt = i
				case isAssign(inner) && s == "msgEthTx.From = sender.Hex()":
					fromAt = i
				}
			}
		}
		if strings.Contains(b, "ethtypes.MakeSigner(ethCfg, blockNum)") &&
			strings.Contains(b, "!allowUnprotectedTxs && !ethTx.Protected()") &&
			recoverAt >= 0 && fromAt > recoverAt {
			sv = "MakeSigner(chain config); unprotected rejected unless AllowUnprotectedTxs; signer.Sender; From set from the recovered sender"
		}
	}
	emitStr("ethSigVerifyShape", sv, "EthSigVerificationDecorator.AnteHandle: signer, protection check, sender recovery")
}

// what the contract-creation branch of ApplyMessageWithConfig does to the sender's nonce after evm.Create
func init() { moreFacts = append(moreFacts, factsCreateNonce) }

func factsCreateNonce() {
	v := "unrecognised"
	if fd := funcDecl("x/evm/keeper/state_transition.go", "Keeper", "ApplyMessageWithConfig"); fd != nil {
		ast.Inspect(fd.Body, func(n ast.Node) bool {
			ifs, ok := n.(*ast.IfStmt)
			if !ok || strings.TrimSpace(src(ifs.Cond)) != "contractCreation" {
				return true
			}
			var st []string
			for _, x := range ifs.Body.List {
				st = append(st, strings.Join(strings.Fields(src(x)), " "))
			}
			j := strings.Join(st, " ; ")
			switch {
			case len(st) == 6 && st[0] == "nonceOnEntry := stateDB.GetNonce(sender.Address())" && st[1] == "stateDB.SetNonce(sender.Address(), msg.Nonce())" &&
				strings.Contains(st[2], "evm.Create(sender,") && st[3] == "nonceAfter := msg.Nonce() + 1" &&
				st[4] == "if nonceOnEntry > nonceAfter { nonceAfter = nonceOnEntry }" && st[5] == "stateDB.SetNonce(sender.Address(), nonceAfter)":
				v = "max(nonce on entry, msg.Nonce()+1)"
			case strings.HasSuffix(j, "stateDB.SetNonce(sender.Address(), msg.Nonce()+1)"):
				v = "msg.Nonce()+1"
			}
			return false
		})
	}
	emitStr("evmCreateNonceAfter", v, "ApplyMessageWithConfig, contract creation: the sender's nonce after evm.Create")
}

// the EIP-712 routes build their signed document from the fee amount and the gas limit only: do they refuse a
// transaction that names a fee granter?
func init() { moreFacts = append(moreFacts, factsEIP712Granter) }

func factsEIP712Granter() {
	var out [][2]string
	site := func(name string, fd *ast.FuncDecl, cond string) {
		v := "missing"
		if fd != nil {
			v = "granter-not-refused"
			ast.Inspect(fd.Body, func(n ast.Node) bool {
				if ifs, ok := n.(*ast.IfStmt); ok && strings.Contains(strings.Join(strings.Fields(src(ifs.Cond)), " "), cond) {
					for _, st := range ifs.Body.List {
						if _, ok := st.(*ast.ReturnStmt); ok {
							v = "granter-refused"
						}
					}
				}
				return true
			})
		}
		out = append(out, [2]string{name, v})
	}
	site("eip712.decodeProtobufSignDoc", funcDecl("ethereum/eip712/encoding.go", "", "decodeProtobufSignDoc"), `authInfo.Fee.Granter != ""`)
	site("eip712.legacyDecodeProtobufSignDoc", funcDecl("ethereum/eip712/encoding_legacy.go", "", "legacyDecodeProtobufSignDoc"), `authInfo.Fee.Granter != ""`)
	site("ante.LegacyEip712SigVerification.VerifySignature", funcDecl("app/ante/cosmos/eip712.go", "", "VerifySignature"), `len(feeTx.FeeGranter()) != 0`)
	emitPairs("eip712FeeGranter", out, "per EIP-712 signature path (typed data built from fee amount and gas limit only): is a transaction naming a fee granter refused")
}

func isAssign(n ast.Stmt) bool { _, ok := n.(*ast.AssignStmt); return ok }
func isIf(n ast.Stmt) bool     { _, ok := n.(*ast.IfStmt); return ok }
