package main

import (
	"go/ast"
	"os"
	"path/filepath"
	"sort"
	"strconv"
	"strings"
)

func init() { moreFacts = append(moreFacts, factsAnte) }

// chainOf lists the decorator constructor expressions of a sdk.ChainAnteDecorators(...) call inside fn.
func chainOf(rel, fn string) []*ast.CallExpr {
	fd := funcDecl(rel, "", fn)
	if fd == nil {
		return nil
	}
	cs := calls(fd.Body, "ChainAnteDecorators")
	if len(cs) != 1 {
		return nil
	}
	var out []*ast.CallExpr
	for _, a := range cs[0].Args {
		switch t := a.(type) {
		case *ast.CallExpr:
			out = append(out, t)
		case *ast.CompositeLit:
			out = append(out, &ast.CallExpr{Fun: t.Type})
		}
	}
	return out
}

// parseDir parses all non-test go files of a package directory.
func parseDir(rel string) []*ast.File {
	ents, err := os.ReadDir(filepath.Join(repo, rel))
	if err != nil {
		return nil
	}
	var names []string
	for _, e := range ents {
		if strings.HasSuffix(e.Name(), ".go") && !strings.HasSuffix(e.Name(), "_test.go") {
			names = append(names, e.Name())
		}
	}
	sort.Strings(names)
	var out []*ast.File
	for _, n := range names {
		if f := parse(filepath.Join(rel, n)); f != nil {
			out = append(out, f)
		}
	}
	return out
}

// methodOf finds method `name` on receiver type `recv` anywhere in the package directory.
func methodOf(dir, recv, name string) *ast.FuncDecl {
	for _, f := range parseDir(dir) {
		for _, d := range f.Decls {
			if fd, ok := d.(*ast.FuncDecl); ok && fd.Name.Name == name && fd.Recv != nil && len(fd.Recv.List) == 1 && typeName(fd.Recv.List[0].Type) == recv {
				return fd
			}
		}
	}
	return nil
}

// ctorReturnType: the (single) result type name of a constructor function in the package directory.
func ctorReturnType(dir, ctor string) string {
	for _, f := range parseDir(dir) {
		for _, d := range f.Decls {
			if fd, ok := d.(*ast.FuncDecl); ok && fd.Recv == nil && fd.Name.Name == ctor && fd.Type.Results != nil && len(fd.Type.Results.List) == 1 {
				return typeName(fd.Type.Results.List[0].Type)
			}
		}
	}
	return ""
}

// rejectsNonEth classifies an eth-route AnteHandle: does it contain a top-level loop over the tx messages in
// which a failed type assertion to *MsgEthereumTx returns an error, and under which conditions is that loop
// skipped by an earlier `return next(...)`?  Result: "always", "except:<conds>" or "never".
func rejectsNonEth(fd *ast.FuncDecl) string {
	if fd == nil || fd.Body == nil {
		return "never"
	}
	var skips []string
	for _, st := range fd.Body.List {
		if rs, ok := st.(*ast.RangeStmt); ok && loopRejects(rs) {
			if len(skips) == 0 {
				return "always"
			}
			return "except:" + strings.Join(skips, " || ")
		}
		if is, ok := st.(*ast.IfStmt); ok && strings.Contains(src(is.Body), "return next(") {
			skips = append(skips, src(is.Cond))
		}
	}
	return "never"
}

func loopRejects(rs *ast.RangeStmt) bool {
	if !strings.Contains(src(rs.X), "GetMsgs()") {
		return false
	}
	body := src(rs.Body)
	i := strings.Index(body, ".(*evmtypes.MsgEthereumTx)")
	if i < 0 {
		return false
	}
	rest := body[i:]
	j := strings.Index(rest, "if !ok {")
	if j < 0 {
		return false
	}
	k := strings.Index(rest[j:], "}")
	return k > 0 && strings.Contains(rest[j:j+k], "return ctx, ")
}

func factsAnte() {
	const ho = "app/ante/handler_options.go"
	name := func(c *ast.CallExpr) string { return exprName(c.Fun) }
	var evm, cosmos, eip [][2]string
	var evmNames, cosmosNames, eipNames []string
	for _, c := range chainOf(ho, "newEVMAnteHandler") {
		n := name(c)
		evmNames = append(evmNames, n)
		dir, ctor := "", n
		if strings.HasPrefix(n, "evmante.") {
			dir, ctor = "app/ante/evm", strings.TrimPrefix(n, "evmante.")
		}
		rej := "n/a"
		if dir != "" {
			rej = rejectsNonEth(methodOf(dir, ctorReturnType(dir, ctor), "AnteHandle"))
		}
		evm = append(evm, [2]string{n, rej})
	}
	for _, c := range chainOf(ho, "newCosmosAnteHandler") {
		cosmosNames = append(cosmosNames, name(c))
		cosmos = append(cosmos, [2]string{name(c), strings.Join(argSrcs(c), "; ")})
	}
	for _, c := range chainOf(ho, "newLegacyCosmosAnteHandlerEip712") {
		eipNames = append(eipNames, name(c))
		eip = append(eip, [2]string{name(c), strings.Join(argSrcs(c), "; ")})
	}
	emitStrs("anteEvmChain", evmNames, "decorators of newEVMAnteHandler, in order")
	emitPairs("anteEvmRejectsNonEth", evm, "per eth-route decorator: does its AnteHandle reject a message that is not *MsgEthereumTx (always / conditional / never)")
	emitStrs("anteCosmosChain", cosmosNames, "decorators of newCosmosAnteHandler, in order")
	emitStrs("anteEip712Chain", eipNames, "decorators of newLegacyCosmosAnteHandlerEip712, in order")
	lim := func(ps [][2]string) []string {
		for _, p := range ps {
			if p[0] == "cosmosante.NewAuthzLimiterDecorator" {
				return strings.Split(p[1], "; ")
			}
		}
		return nil
	}
	emitStrs("anteCosmosAuthzDisabled", lim(cosmos), "message types handed to NewAuthzLimiterDecorator on the Cosmos route")
	emitStrs("anteEip712AuthzDisabled", lim(eip), "message types handed to NewAuthzLimiterDecorator on the EIP-712 route")

	// route table of NewAnteHandler
	var routes [][2]string
	def := ""
	unknownRejected := false
	if fd := funcDecl("app/ante/ante.go", "", "NewAnteHandler"); fd != nil {
		ast.Inspect(fd.Body, func(n ast.Node) bool {
			sw, ok := n.(*ast.SwitchStmt)
			if !ok || !strings.Contains(src(sw.Init), "GetTypeUrl()") {
				return true
			}
			for _, cl := range sw.Body.List {
				cc := cl.(*ast.CaseClause)
				target := ""
				for _, c := range calls(cc, "") {
					_ = c
				}
				ast.Inspect(cc, func(m ast.Node) bool {
					if as, ok := m.(*ast.AssignStmt); ok && len(as.Lhs) == 1 && exprName(as.Lhs[0]) == "anteHandler" {
						if ce, ok := as.Rhs[0].(*ast.CallExpr); ok {
							target = exprName(ce.Fun)
						}
					}
					return true
				})
				if cc.List == nil {
					unknownRejected = strings.Contains(src(cc), "ErrUnknownExtensionOptions") && strings.Contains(src(cc), "return ctx")
					continue
				}
				for _, e := range cc.List {
					if bl, ok := e.(*ast.BasicLit); ok {
						u, _ := strconv.Unquote(bl.Value)
						routes = append(routes, [2]string{u, target})
					}
				}
			}
			return true
		})
		ast.Inspect(fd.Body, func(n ast.Node) bool {
			if ts, ok := n.(*ast.TypeSwitchStmt); ok {
				ast.Inspect(ts, func(m ast.Node) bool {
					if as, ok := m.(*ast.AssignStmt); ok && len(as.Lhs) == 1 && exprName(as.Lhs[0]) == "anteHandler" && def == "" {
						if ce, ok := as.Rhs[0].(*ast.CallExpr); ok {
							def = exprName(ce.Fun)
						}
					}
					return true
				})
			}
			return true
		})
	}
	emitPairs("anteRoutes", routes, "NewAnteHandler: type URL of the first extension option → chain constructor")
	emitStr("anteDefaultRoute", def, "chain used when the tx carries no extension option")
	emitBool("anteUnknownFirstOptionRejected", unknownRejected, "the default case of the route switch returns ErrUnknownExtensionOptions")

	// the nesting cap
	maxNested := int64(-1)
	if f := parse("app/ante/cosmos/authz.go"); f != nil {
		for _, d := range f.Decls {
			if gd, ok := d.(*ast.GenDecl); ok {
				for _, s := range gd.Specs {
					if vs, ok := s.(*ast.ValueSpec); ok && len(vs.Names) == 1 && vs.Names[0].Name == "maxNestedMsgs" && len(vs.Values) == 1 {
						if bl, ok := vs.Values[0].(*ast.BasicLit); ok {
							maxNested, _ = strconv.ParseInt(bl.Value, 10, 64)
						}
					}
				}
			}
		}
	}
	if maxNested < 0 {
		maxNested = 0
	}
	emitNat("authzMaxNestedMsgs", maxNested, "maxNestedMsgs in app/ante/cosmos/authz.go")
	one := func(rel, recv, fn, needle string) bool {
		var fd *ast.FuncDecl
		if recv == "" {
			fd = funcDecl(rel, "", fn)
		} else {
			fd = funcDecl(rel, recv, fn)
		}
		return fd != nil && strings.Contains(src(fd.Body), needle)
	}
	emitBool("ethValidateBasicRequiresOneExt", one("app/ante/evm/setup_ctx.go", "EthValidateBasicDecorator", "AnteHandle", "len(body.ExtensionOptions) != 1"), "EthValidateBasicDecorator rejects unless exactly one extension option")
	emitBool("eip712VerifierRequiresOneExt", one("app/ante/cosmos/eip712.go", "", "VerifySignature", "len(opts) != 1"), "the EIP-712 signature verifier rejects unless exactly one extension option")
	chk := ""
	if f := parse("app/app.go"); f != nil {
		ast.Inspect(f, func(n ast.Node) bool {
			if kv, ok := n.(*ast.KeyValueExpr); ok && exprName(kv.Key) == "ExtensionOptionChecker" {
				chk = src(kv.Value)
			}
			return true
		})
	}
	emitStr("anteExtensionOptionChecker", chk, "ExtensionOptionChecker wired in app.go")
	wraps := false
	if f := parse("app/app.go"); f != nil {
		wraps = strings.Contains(src(f), "app.SetAnteHandler(NewHaqqAnteHandlerDecorator(") && strings.Contains(src(f), "ante.NewAnteHandler(options)")
	}
	emitBool("appUsesNewAnteHandler", wraps, "app.go installs ante.NewAnteHandler(options) (wrapped by NewHaqqAnteHandlerDecorator)")
}

func argSrcs(c *ast.CallExpr) []string {
	var out []string
	for _, a := range c.Args {
		out = append(out, src(a))
	}
	return out
}
