package main

import "strings"

// factsVesting: which start time the two merge entry points hand to addGrant.
func factsVesting() {
	usesMin := true
	arg := "?"
	if fd := funcDecl("x/vesting/keeper/schedule.go", "Keeper", "ApplyVestingSchedule"); fd != nil {
		cs := calls(fd.Body, "addGrant")
		if len(cs) == 1 && len(cs[0].Args) >= 3 {
			arg = src(cs[0].Args[2])
			if arg == "startTime.Unix()" {
				usesMin = false
			}
		}
	}
	emitStr("vestingApplyGrantStartArg", arg, "third argument of the addGrant call in ApplyVestingSchedule (x/vesting/keeper/schedule.go)")
	emitBool("vestingApplyUsesMin", usesMin, "ApplyVestingSchedule(merge) does not pass the grant's own start time to addGrant (true also when the shape was not recognised)")
	arg2 := "?"
	if fd := funcDecl("x/vesting/keeper/msg_server.go", "Keeper", "CreateClawbackVestingAccount"); fd != nil {
		cs := calls(fd.Body, "addGrant")
		if len(cs) == 1 && len(cs[0].Args) >= 3 {
			arg2 = src(cs[0].Args[2])
		}
	}
	emitStr("vestingCreateGrantStartArg", arg2, "third argument of the addGrant call in CreateClawbackVestingAccount")
	emitBool("vestingCreatePassesOwnStart", strings.TrimSpace(arg2) == "msg.GetStartTime().Unix()", "CreateClawbackVestingAccount(merge) passes the message's own start time")
	// first clause of ClawbackVestingAccount.Validate: strict (>=) or not (>)
	strict := true
	if fd := funcDecl("x/vesting/types/clawback_vesting_account.go", "ClawbackVestingAccount", "Validate"); fd != nil {
		body := src(fd.Body)
		if strings.Contains(body, "va.GetStartTime() > va.GetEndTime()") && !strings.Contains(body, "va.GetStartTime() >= va.GetEndTime()") {
			strict = false
		}
	}
	emitBool("vestingValidateStrict", strict, "ClawbackVestingAccount.Validate rejects start >= end (false: only start > end; true also when not recognised)")
	// funder checks present in Clawback / UpdateVestingFunder
	has := func(fn, needle string) bool {
		fd := funcDecl("x/vesting/keeper/msg_server.go", "Keeper", fn)
		return fd != nil && strings.Contains(src(fd.Body), needle)
	}
	emitBool("vestingClawbackChecksFunder", has("Clawback", "va.FunderAddress != funder.String()"), "Clawback compares the recorded funder with the message's funder")
	emitBool("vestingUpdateFunderChecksFunder", has("UpdateVestingFunder", "va.FunderAddress != msg.FunderAddress"), "UpdateVestingFunder compares the recorded funder with the message's funder")
}
