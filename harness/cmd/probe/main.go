package main

import (
	"fmt"
	"math/big"

	sdkmath "cosmossdk.io/math"
	sdk "github.com/cosmos/cosmos-sdk/types"
	distrtypes "github.com/cosmos/cosmos-sdk/x/distribution/types"

	"verif/harness/props"
)

func main() {
	props.ProbeRewardsBurn(func(s string, a ...interface{}) { fmt.Printf(s+"\n", a...) })
	_ = big.NewInt
	_ = sdkmath.NewInt
	_ = sdk.NewCoin
	_ = distrtypes.ModuleName
}
