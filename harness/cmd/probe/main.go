package main

import (
	"fmt"

	"verif/harness/props"
)

func main() {
	n := props.UpgradeHandlerOutcomes(func(s string, a ...interface{}) { fmt.Printf(s+"\n", a...) }, 400, 6)
	fmt.Println("distinct outcomes:", len(n))
}
