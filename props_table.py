"""Per-property configuration of ./check (which Lean modules hold the theorems, what is trusted)."""

COMMON_TRUST = [
    "Lean 4.33.0 kernel (thorough tier: re-checked by leanchecker); axioms used are listed in coverage.axioms_used and must be within {propext, Classical.choice, Quot.sound}",
    "harness/cmd/extract (go/ast fact extractor) and harness/props (generators, canonicalisers, monitors): the tie between model and code is as good as these",
]

PROPS = {
    "C12": {
        "id": "C12",
        "lean_modules": ["HaqqModel.Props.C12"],
        "level": "proof",
        "trusted_base": COMMON_TRUST + [
            "modelled, not verified: Cosmos SDK bank keeper (SendCoinsFromAccountToModule as an all-or-nothing debit/credit), KV store, sdk.Coins validity rules, LegacyDec.Mul/TruncateInt for ratio transfers (computed in the driver, compared with the real code on every run)",
        ],
        "assumptions": [
            "a failing message leaves no state change (the SDK runs messages in a cached context; the harness does the same)",
            "accounts and denominations are finite sets of arbitrary size (N, M universally quantified in the theorems)",
        ],
        "level_text": "Machine-checked proof (Lean 4 kernel) that the DAO ledger invariant holds in every reachable state of the model and that fund/transfer move exactly the stated amounts, for the write order extracted from the current source; the model is tied to the real keeper by a differential run on every check.",
        "level_note": "Trusted: Lean kernel; the go/ast extractor; the correspondence harness; SDK bank/store semantics are modelled (parameters of the model), not verified.",
        "technique": "Lean 4 invariant proof by induction over op sequences + regenerated facts + differential correspondence",
        "explanation": "Inv (Σ shares = total = module account; holders index = support) proved by induction over arbitrary fund/transfer histories for the write order extracted from the current source; model tied to the real keeper by differential op sequences; raw-store monitors evaluate the three equalities on the real code after every op.",
    },
}

# properties not (yet) claimed, each with a reason; entries disappear as checks are built
NOT_APPLICABLE = {pid: "check not built yet in this session (planned: see DESIGN.md §5)" for pid in
                  ["C01", "C02", "C03", "C04", "C05", "C06", "C07", "C08", "C09", "C10", "C11", "C13", "C14", "C15", "C16", "C17", "C18", "C19", "C20"]}

HOOK_COMMITS = []
