"""Per-property configuration of ./check (which Lean modules hold the theorems, what is trusted)."""

COMMON_TRUST = [
    "Lean 4.33.0 kernel (thorough tier: re-checked by leanchecker); axioms used are listed in coverage.axioms_used and must be within {propext, Classical.choice, Quot.sound}",
    "harness/cmd/extract (go/ast fact extractor) and harness/props (generators, canonicalisers, monitors): the tie between model and code is as good as these",
]

PROPS = {
    "C12": {
        "id": "C12",
        "lean_modules": ["HaqqModel.Props.C12"],
        "level": "proof",
        "trusted_base": COMMON_TRUST + [
            "modelled, not verified: Cosmos SDK bank keeper (SendCoinsFromAccountToModule as an all-or-nothing debit/credit), KV store, sdk.Coins validity rules, LegacyDec.Mul/TruncateInt for ratio transfers (computed in the driver, compared with the real code on every run)",
        ],
        "assumptions": [
            "a failing message leaves no state change (the SDK runs messages in a cached context; the harness does the same)",
            "accounts and denominations are finite sets of arbitrary size (N, M universally quantified in the theorems)",
        ],
        "level_text": "Machine-checked proof (Lean 4 kernel) that the DAO ledger invariant holds in every reachable state of the model and that fund/transfer move exactly the stated amounts, for the write order extracted from the current source, and that a genesis the module accepts starts from books that add up (single-denomination model of InitGenesis; the refusal of a repeated address is a regenerated fact); the model is tied to the real keeper by a differential run on every check, with histories restarted from their exported genesis.",
        "level_note": "Trusted: Lean kernel; the go/ast extractor; the correspondence harness; SDK bank/store semantics are modelled (parameters of the model), not verified.",
        "technique": "Lean 4 invariant proof by induction over op sequences + regenerated facts + differential correspondence",
        "explanation": "Inv (Σ shares = total = module account; holders index = support) proved by induction over arbitrary fund/transfer histories for the write order extracted from the current source; model tied to the real keeper by differential op sequences; raw-store monitors evaluate the three equalities on the real code after every op.",
    },
    "C09": {
        "id": "C09",
        "lean_modules": ["HaqqModel.Props.C09"],
        "level": "proof",
        "trusted_base": COMMON_TRUST + [
            "modelled, not verified: sdk.Coins arithmetic (pointwise Add/Min/Sub/IsAllLTE/IsZero), int64 times as unbounded Int (no overflow checks exist in the Go code; generators stay below 2^62), bank SendCoins for the clawback transfer, the auth account store",
        ],
        "assumptions": [
            "period lengths are non-negative (ValidateBasic demands >= 1, the defaults and the merge functions produce 0)",
            "statements that depend on IsAllLTE/IsZero are for the denominations in use (d < M, M arbitrary)",
            "equality with the step function is claimed strictly after the start time (at t = start the schedule reads zero)",
        ],
        "level_text": "Machine-checked proofs (Lean 4) that ReadSchedule is the monotone step function, that DisjunctPeriods is the union (sum at every instant, totals and end preserved), that ConjunctPeriods is the pointwise minimum, that addGrant merges exactly, that ComputeClawback takes exactly the unvested amount, keeps the vested amount under min(old lockup, vested) and leaves an account its own Validate() accepts, and that only the recorded funder can claw back or hand over; facts about the merge start argument, the funder comparisons and the Validate comparison are regenerated from the source on every run; the model is tied to the real functions by a differential run.",
        "level_note": "Trusted: Lean kernel; go/ast extractor; correspondence harness; sdk.Coins semantics modelled pointwise; message-level keeper glue (account store, bank send) is covered by correspondence only.",
        "technique": "Lean 4 proofs by functional induction over the merge loops + regenerated facts + differential correspondence",
        "explanation": "Schedule algebra proved for all period lists, times and denominations; pure functions and account methods of x/vesting/types compared line by line with the compiled Lean driver; independent Go step-function monitors check union/min/clawback identities on the real code.",
    },
    "C17": {
        "id": "C17",
        "lean_modules": ["HaqqModel.Props.C17"],
        "level": "proof",
        "trusted_base": COMMON_TRUST + [
            "modelled, not verified: big.Int / LegacyDec arithmetic (floor division, exact Dec multiplication of an integer, TruncateInt), the params store, the consensus-params plumbing, the block gas meter",
        ],
        "assumptions": [
            "parameters satisfy Params.Validate() (denominator != 0, elasticity != 0 — the latter is a regenerated fact), base fee enabled and past the enable height, target T > 0, MaxGas < 2^63",
            "monotonicity is proved for floor(minGasPrice) <= parent base fee; outside that regime it is false of the code (known finding F-C17-a, pinned by the repository's own tests)",
        ],
        "level_text": "Machine-checked proofs (Lean 4) that CalculateBaseFee is the stated EIP-1559 function (three branches), respects the minimum on decrease, strictly increases above target, is monotone in g when the minimum does not exceed the parent fee (with a kernel-checked counterexample otherwise), never panics for validated parameters, and that the EndBlock gas figure is max(floor(gasWanted x multiplier), gasUsed) and monotone; tied to the real keeper by a differential run.",
        "level_note": "Trusted: Lean kernel; go/ast extractor; correspondence harness; integer/decimal library semantics modelled.",
        "technique": "Lean 4 proofs (case analysis + omega) + regenerated validation fact + differential correspondence",
        "explanation": "All branches of CalculateBaseFee / EndBlock modelled and proved; the real keeper is run on boundary sweeps around the target and compared with the compiled Lean driver; independent big.Int monitors check formula, bounds and adjacent-g monotonicity.",
    },
    "C13": {
        "id": "C13",
        "lean_modules": ["HaqqModel.Props.C13"],
        "level": "proof",
        "trusted_base": COMMON_TRUST + [
            "modelled, not verified: cosmossdk.io/math LegacyDec (Mul/Quo/RoundInt re-implemented in Prelude/Dec.lean step by step and compared on every run), Go time.Year() (civilYear re-implemented, compared on every run), bank MintCoins/SendCoinsFromModuleToModule, params subspace, staking TotalBondedTokens as an input",
        ],
        "assumptions": [
            "the fixed-point pipeline is the specification (the statement says 'evaluated in 18-decimal fixed point')",
            "bonded, supply and max supply are read once per block as the code does; other modules may change the supply between blocks",
        ],
        "level_text": "Machine-checked proofs (Lean 4): nothing minted while disabled or on the first block after (re-)activation, the minted amount is the rounded fixed-point formula with elapsed = difference of consecutive block timestamps, supply never crosses the maximum (crossing block mints exactly the remainder and switches off), everything minted goes to the fee collector, leap-year rule; facts (timestamp reset while disabled, mint-then-forward order) regenerated from the source; model tied to the real MintAndAllocate/EndBlocker by a differential run over arbitrary magnitudes.",
        "level_note": "Trusted: Lean kernel; go/ast extractor; correspondence harness (the real keeper code runs over stub bank/staking keepers that record calls); LegacyDec and time.Year() are modelled and differential-tested.",
        "technique": "Lean 4 proofs over a fixed-point model + regenerated facts + differential correspondence",
        "explanation": "MintAndAllocate and EndBlocker modelled including the negative and cap branches; rounding lemmas prove the cap; block histories with enable/disable/cap changes run on the real keeper code and are compared with the compiled Lean driver; independent big.Int monitors recompute the formula from consecutive timestamps.",
    },
    "C11": {
        "id": "C11",
        "lean_modules": ["HaqqModel.Props.C11"],
        "level": "proof",
        "trusted_base": COMMON_TRUST + [
            "modelled, not verified: sdk.Int (256-bit; the overflow panic of a_i*s is reproduced in the driver, outside the proved model), bank escrow/mint/burn and the ERC20 conversion of the liquid token (abstracted as supply-neutral balance moves), the vesting keeper's ApplyVestingSchedule glue (its merge start argument is a regenerated fact)",
        ],
        "assumptions": [
            "the liquidating account satisfies Validate() (AccValid) — what the vesting module guarantees for stored accounts (C09)",
            "holders cannot redeem more than the supply of a liquid denomination (bank balance check)",
        ],
        "level_text": "Machine-checked proofs (Lean 4): SubtractAmountFromPeriods conserves every period in every denomination, moves exactly the requested amount and fails exactly when funds are insufficient; Liquidate splits the lockup schedule exactly at the same absolute instants (account-after + liquid = account-before, at every instant); Redeem splits the denomination's schedule exactly and hands the redeemed part to the recipient under the denomination's own start (nothing earlier); for every history of liquidate/transfer/redeem each denomination's schedule sums to its supply and the module escrow equals the total liquid supply.",
        "level_note": "Trusted: Lean kernel; go/ast extractor; correspondence harness; keeper glue (account store, bank, erc20 conversion) covered by correspondence only.",
        "technique": "Lean 4 proofs by list induction (split relation, append/shift lemmas) + history invariant + differential correspondence",
        "explanation": "Pure schedule functions of x/liquidvesting/types compared line by line with the compiled Lean driver; Go monitors check per-period conservation, lengths and totals on the real code.",
    },
    "C06": {
        "id": "C06",
        "lean_modules": ["HaqqModel.Props.C06"],
        "level": "proof",
        "trusted_base": COMMON_TRUST + [
            "modelled, not verified: the SDK's tx decoder (refuses unregistered extension options and message types), authz.MsgExec/MsgGrant unpacking, sdk.ChainAnteDecorators sequencing, the SDK ExtensionOptionsDecorator; the per-decorator 'only MsgEthereumTx' and chain-order statements are regenerated AST facts",
        ],
        "assumptions": [
            "'extension option' = critical extension_options (non-critical ones are ignorable by protocol definition)",
            "rejection is observed on DeliverTx; CheckTx/ReCheckTx-only shortcuts (EthMempoolFee, ReCheck skips) are listed per decorator in the regenerated facts",
        ],
        "level_text": "Machine-checked proofs (Lean 4) by mutual structural induction over message trees of any depth and width: a blocked message below any MsgExec, or a MsgGrant of a blocked type anywhere, is rejected by the limiter's scan for every nesting level and cap; the cap itself rejects; top-level MsgEthereumTx is rejected on both non-Ethereum routes; only MsgEthereumTx passes the Ethereum route; every option list containing an unknown extension option is rejected. Chain composition, route table, disabled types and the cap are regenerated from app/ante and decided by the kernel. The real decorators and the application's DeliverTx are compared with the model on random trees.",
        "level_note": "Trusted: Lean kernel; go/ast extractor; correspondence harness; SDK decoder/decorator semantics modelled.",
        "technique": "Lean 4 mutual structural induction + kernel-decided regenerated facts + differential correspondence",
        "explanation": "checkDisabledMsgs modelled with its exact level arithmetic; gate = route selection + the rejecting prefix of each chain; trees with a blocked message at a uniformly chosen position are run through the real AuthzLimiterDecorator/RejectMessagesDecorator, whole encoded txs through DeliverTx, and tx objects through a handler composed like app.go.",
    },
    "C18": {
        "id": "C18",
        "lean_modules": ["HaqqModel.Props.C18"],
        "level": "proof",
        "trusted_base": COMMON_TRUST + [
            "modelled, not verified: go-ethereum's Transaction (NewTx copy normalisation, hash = H(type ‖ rlp(fields)), sender recovery — both treated as functions of the field record), big.Int.Bytes/SetBytes (re-implemented and proved inverse), hex address/hash string conversion, and the generated protobuf / Any / Cosmos tx encoding (exercised end to end on every run, not modelled)",
        ],
        "assumptions": [
            "hash and recovered sender are functions of the go-ethereum transaction's fields (so field identity implies both)",
        ],
        "level_text": "Machine-checked proof (Lean 4) that wrapping and unwrapping is the identity on every transaction of the three types whose amounts fit 256 bits (all field values, creation, empty/huge data and access lists, zero signature components), that larger values are refused rather than altered, that fee / cost / effective price / effective fee / effective cost derived from the message equal go-ethereum's figures, and that signing a message that already carries a signature yields the transaction with exactly the new signature values, independently of the old ones; tied to the real code by signing random transactions and sending them through FromEthereumTx → BuildTx → encode → decode → AsTransaction.",
        "level_note": "Trusted: Lean kernel; correspondence harness; protobuf codec and go-ethereum hashing/recovery are not modelled (covered end to end by the monitors: hash, recorded hash, sender, canonical encoding).",
        "technique": "Lean 4 round-trip proof (byte-encoding inverse lemma + case analysis) + differential correspondence",
        "explanation": "Field-by-field model of the eth ↔ proto conversion; Go monitors compare hash, recorded hash, recovered sender, canonical binary encoding and the fee figures of the decoded message with the original signed transaction.",
    },
    "C14": {
        "id": "C14",
        "lean_modules": ["HaqqModel.Props.C14"],
        "level": "proof",
        "trusted_base": COMMON_TRUST + [
            "modelled, not verified: SDK bank SendCoinsFromModuleToModule / BurnCoins (all-or-nothing moves, Burner permission panic), the distribution FeePool record, the SDK staking Slash and gov DeleteAndBurnDeposits internals (they are driven for real by the harness; the model only covers what the override does with the coins they burn)",
        ],
        "assumptions": [
            "one denomination at a time (the override is pointwise per coin)",
            "slashed stake and burned deposits reach the bank only through BurnCoins of the keeper wired into the staking / gov keepers (wiring is a regenerated fact)",
        ],
        "level_text": "Machine-checked proofs (Lean 4) that a burn by a redirected module leaves the supply unchanged, adds exactly the amount to the community pool and to the distribution account, preserves distribution's accounting invariant and Σ balances = supply, and that any other module's burn reduces the supply by the amount; the redirected set, the body of the redirected case, the fall-through, the module permissions and the wiring of the overriding keeper into the staking and gov keepers are regenerated from the source and decided by the kernel; real slashes (bonded, unbonding, redelegating stake) and deposit burns run on the application with the three deltas monitored.",
        "level_note": "Trusted: Lean kernel; go/ast extractor; correspondence harness; SDK staking/gov internals exercised, not modelled.",
        "technique": "Lean 4 ledger proofs + kernel-decided regenerated facts + differential correspondence and scenario monitors",
        "explanation": "BurnCoins of the overriding keeper compared with the model for every module account; slash and deposit-burn scenarios on the real keepers with supply / community pool / distribution account monitored.",
    },
    "C07": {
        "id": "C07",
        "lean_modules": ["HaqqModel.Props.C07"],
        "level": "proof",
        "trusted_base": COMMON_TRUST + [
            "modelled, not verified: the go-ethereum interpreter and its gas schedule (the gas it consumed after refunds is an input, measured on a branch with the multiplier at 0), LegacyDec Mul/Ceil/TruncateInt on integer operands, bank module-to-account transfers, tx-level atomicity of the ante handler vs message execution",
        ],
        "assumptions": [
            "consumed <= gasLimit (checked by the code) and minGasMultiplier <= 1 (Params.Validate)",
            "multi-message Ethereum txs are sums of single-message settlements (the decorators loop over the messages)",
        ],
        "level_text": "Machine-checked proofs (Lean 4) that an accepted Cosmos or Ethereum fee is at least minGasPrice x gasLimit — and so is the amount a Cosmos transaction is actually charged, with or without the dynamic-fee option (kernel-checked counterexamples for the code before cda7d87 and before 1b01559) —, that an Ethereum tx with fee cap below the base fee is refused, that gasUsed = max(floor(multiplier x limit), consumed - refund) never exceeds the limit, and that deduction minus refund is exactly gasUsed x effectivePrice; tied to the real decorators / VerifyFee on boundary tuples and to real signed Ethereum transactions through DeliverTx with sender and fee-collector deltas measured.",
        "level_note": "Trusted: Lean kernel; correspondence harness; EVM gas consumption is an input of the model.",
        "technique": "Lean 4 arithmetic proofs (omega over floor/ceil division) + differential correspondence on real transactions",
        "explanation": "Floors, VerifyFee and the gasUsed/refund arithmetic modelled and proved; real transfers, storage set/clear (refund), reverts and out-of-gas runs are delivered and their gasUsed, sender payment and collector gain compared with the model and with independent big.Int monitors.",
    },
    "C08": {
        "id": "C08",
        "lean_modules": ["HaqqModel.Props.C08", "HaqqModel.Props.C08Model"],
        "level": "proof",
        "trusted_base": COMMON_TRUST + [
            "modelled, not verified: the SDK bank keeper's subUnlockedCoins guard (balance − LockedCoins ≥ amount on every account debit), DelegateCoins/UndelegateCoins and the vesting account's delegation tracking, the EVM's balance write-back through the same bank primitives; that each listed path reaches one of the two guards is established by the correspondence run, not by the model",
        ],
        "assumptions": [
            "the account satisfies Validate() (C09) and DelegatedVesting is empty (Haqq's TrackDelegation only grows DelegatedFree and addGrant resets both)",
            "stated for spend attempts by the account; slashing and a funder's merge are not spends",
        ],
        "level_text": "Machine-checked proofs (Lean 4): LockedCoins equals max(original − unlockedVested − trackedDelegated, unvested) for every valid account, block time and denomination in use, it never grows with time, a debit that passes the bank guard leaves at least the locked amount, a delegation that passes the staking wrapper's guard leaves at least the unvested amount, balance ≥ locked is an invariant of every history of spends, receipts, delegations, undelegations and time steps, and an accepted conversion back to a plain account (MsgConvertVestingAccount) happens only when the locked amount is zero then and at every later time, whatever is delegated; every spend path of the list is attempted around the spendable boundary on the real application and compared with the model's accept/refuse verdict.",
        "level_note": "Trusted: Lean kernel; correspondence harness; SDK bank/staking internals modelled as guards.",
        "technique": "Lean 4 proofs over the C09 schedule model (omega after unfolding) + history invariant + differential correspondence per spend path",
        "explanation": "Guard algebra proved on the vesting model; bank send, multi-send, fee payment, DAO fund, governance deposit, delegation by message compared op by op with the model at amounts spendable±1; EVM value transfer, precompile delegation and undelegation monitored with the property's own formula.",
    },
    "C05": {
        "id": "C05",
        "lean_modules": ["HaqqModel.Props.C05", "HaqqModel.Props.C05Storage", "HaqqModel.Props.Script"],
        "level": "proof",
        "trusted_base": COMMON_TRUST + [
            "modelled, not verified: go-ethereum's interpreter (that every frame takes a Snapshot on entry and calls RevertToSnapshot on failure, and that all EVM-side writes go through the StateDB methods modelled here) — exercised by the real transactions of the correspondence run, not proved; the Cosmos-side effects of precompile calls are outside the journal model and are covered by the transaction-level monitors only; contract code changes are journalled like nonce changes and are not modelled separately",
        ],
        "assumptions": [
            "revert_restores is stated for spans without a Commit; a stateful precompile's Run() commits on entry, and for spans containing one the property is false of the code (known finding F-C05-a, Lean counterexample flush_then_revert_counterexample)",
            "every existing account is cached (Sat): caching is observationally neutral (saturate_get)",
        ],
        "level_text": "Machine-checked proofs (Lean 4) over a model of x/evm/statedb: every journalled mutation (balance, nonce, storage, refund, log, access list, self-destruct, CreateAccount over an existing object) is exactly undone by reverting to the journal length before it, for all sequences of mutations interleaved with any number of inner snapshots, and Snapshot/RevertToSnapshot returns the identical StateDB (objects, storage, refund, logs, access list, dirty counts); a failed transaction discards its cached context; a kernel-checked counterexample shows that a Commit inside the reverted span (precompile entry) makes EVM-side writes persist. Commit's skipping of slots that hold the last committed value is modelled (Obj.base) and proved harmless while the reference values are coherent with the keeper (commit_writes_storage, basecoh_commit, basecoh_mstep). The model is tied to the real StateDB over the application's EVM keeper by an exact differential run, and real signed transactions with nested reverting frames are judged against the property on the application.",
        "level_note": "Trusted: Lean kernel; correspondence harness; the EVM interpreter's use of snapshots is exercised, not proved; Cosmos-side precompile effects are monitored, not modelled.",
        "technique": "Lean 4 proof by induction over journal entries and op sequences + differential correspondence with the real StateDB + transaction-level monitors",
        "explanation": "Journal/snapshot algebra proved for all op sequences; the real statedb.StateDB over app.EvmKeeper is driven with random journals, nested snapshots, reverts to any valid snapshot and mid-span commits and compared state-for-state with the compiled Lean driver; signed Ethereum transactions to a script-interpreting contract exercise nested frames, storage, logs, payments and staking-precompile calls inside reverted frames.",
    },
    "C02": {
        "id": "C02",
        "lean_modules": ["HaqqModel.Props.C02", "HaqqModel.Props.Script"],
        "level": "proof",
        "trusted_base": COMMON_TRUST + [
            "modelled, not verified: the bank keeper's mint/burn in EVMKeeper.SetBalance (as supply ± difference), SendCoins between an account and an outside pool (supply-neutral), the auth account store; the Cosmos message a precompile runs is modelled as an arbitrary list of supply-neutral credits and debits of arbitrary accounts",
            "the go-ethereum interpreter (that value transfers are SubBalance + AddBalance of equal amounts after CanTransfer) is exercised by the transaction-level run, not proved",
        ],
        "assumptions": [
            "an address without an auth account holds no coins of the EVM denomination",
            "SELFDESTRUCT is outside evm_tx_conserves (it burns explicitly when the beneficiary is the contract itself, and coins sent to a destructed account die with it); the differential run covers it with a beneficiary",
            "a frame that calls a stateful precompile and then reverts is outside the theorem: the journal does not cover the Cosmos context (known finding of C05, with its consequence for balances listed under C02)",
        ],
        "level_text": "Machine-checked proofs (Lean 4) over the StateDB/keeper model: Commit changes the supply by exactly the sum of the balance changes it writes; after Commit every bank balance equals the EVM's view; after SyncBalances the EVM sees the bank's balance of every account; for every sequence of value transfers, storage and nonce writes, precompile queries (Commit) and stateful precompile calls (Commit, a Cosmos message moving coins of arbitrary accounts, SyncBalances) the final Commit leaves the total supply unchanged and the bank equal to the EVM's view; kernel-checked over regenerated facts: every coin-moving precompile method has that shape; kernel-checked counterexample for the unsynchronised case (the defects repaired by e6ca689). Tied to the real StateDB, EVM keeper and bank keeper by an exact differential run; real signed transactions are judged against supply conservation and per-account balance equations.",
        "level_note": "Trusted: Lean kernel; extractor; correspondence harness; bank mint/burn/send semantics modelled; reverted frames containing precompile calls excluded (C05 finding).",
        "technique": "Lean 4 invariant proof (coherence of cache and bank, conserved quantity supply + EVM view − bank) by induction over op sequences + regenerated precompile-shape facts + differential correspondence + transaction-level monitors",
        "explanation": "Exact mint/burn accounting of Commit, the SyncBalances specification and the conservation invariant proved for all histories; the real StateDB/bank are driven with transfers, round trips across flushes, bank movements of arbitrary accounts followed by SyncBalances and compared state-for-state (including total supply) with the compiled Lean driver; supply and balance equations evaluated on real transactions that pay value and call the staking precompile from nested frames.",
    },
    "C01": {
        "id": "C01",
        "lean_modules": ["HaqqModel.Props.C01", "HaqqModel.Props.KeeperMemory"],
        "level": "proof",
        "no_model": True,
        "trusted_base": COMMON_TRUST + [
            "modelled, not verified: the auth keeper's account-number assignment as the only order-sensitive effect of a flush; everything the runtime contributes (Go's randomised map iteration, goroutine scheduling, the wall clock) cannot be exhibited by a model — its absence from consensus code is established by the regenerated facts (a type-checked sweep over every consensus package with go/packages) plus the listed justifications, and searched by the replica run",
        ],
        "assumptions": [
            "the listed order-insensitive map ranges, telemetry-only time.Now() calls and non-state goroutines are judged by inspection (justification next to each entry in Props/C01.lean); a new site of any of these kinds breaks a theorem",
            "CometBFT, IAVL and the Cosmos SDK modules below Haqq's own code are deterministic",
        ],
        "level_text": "Partial. Machine-checked (Lean 4): flushing the dirty set in sorted order is independent of the enumeration order of the dirty map (and is order-sensitive without the sort); over facts regenerated from the source on every run: StateDB.Commit iterates sortedDirties()/SortedKeys(), every map range in consensus code feeds a sort or is a listed order-insensitive site, time.Now() and goroutines occur only at listed non-state sites, the module orders are duplicate-free over one module set. Searched, not proved: two independently constructed applications are fed the same generated block histories and every DeliverTx/EndBlock result and app hash is compared.",
        "level_note": "Partial: the runtime sources of nondeterminism cannot be modelled; their syntactic absence is a regenerated, kernel-checked fact and the replica run searches for the rest. Trusted: Lean kernel; go/packages-based extractor; the replica harness.",
        "technique": "Lean 4 theorem on the canonicalising sort + kernel-checked regenerated facts (type-checked source sweep) + replica differential run",
        "explanation": "Order-canonicalisation proved; determinism facts regenerated from the type-checked source and decided in the kernel; histories mixing Cosmos, EVM, puppet-contract, precompile, staking, DAO and governance transactions run on two replicas and compared block by block.",
    },
    "C20": {
        "id": "C20",
        "lean_modules": ["HaqqModel.Props.C20", "HaqqModel.Props.KeeperMemory"],
        "level": "proof",
        "no_model": True,
        "trusted_base": COMMON_TRUST + [
            "modelled, not verified: a node as (database, process memory); that app.NewHaqq derives its memory from the database and the binary alone; baseapp/IAVL LoadLatestVersion; OS and filesystem behaviour of a real crash is outside the property (block boundaries only) and outside the model",
        ],
        "assumptions": [
            "the listed receiver-field writers are rebuilt on restart (construction-time With*/SetHooks wiring, the chain id re-derived from the header in BeginBlock); AddEVMExtensions is excluded because the facts show it has no caller",
            "process-local state outside Keeper/Haqq receiver fields (package-level variables) is not swept by the fact extractor; the restart run searches for it",
        ],
        "level_text": "Partial. Machine-checked (Lean 4): if every post-construction write to process memory is one that construction followed by the next BeginBlock repeats, a node restarted at a block boundary yields the same outputs and databases as the running node for every continuation (restart_equiv, by induction over the continuation), and the hypothesis is necessary (memoised-parameter counterexample); the hypothesis is discharged over regenerated facts: the complete list of receiver-field writes in Keeper/Haqq methods and the callers of the dynamic extension registration. Searched, not proved: at marked block boundaries a fresh application is built over a copy of the database and compared (start-up height/hash, all later results and hashes).",
        "level_note": "Partial: the abstract restart theorem is proved, its hypothesis is tied to the code by regenerated facts and by the restart run on database copies. Trusted: Lean kernel; extractor; harness; baseapp/IAVL.",
        "technique": "Lean 4 refinement-style theorem (restart equivalence under a rebuilt-memory relation) + kernel-checked regenerated facts + restart differential run on database copies",
        "explanation": "Restart equivalence proved for the abstract node; every write to keeper process memory enumerated from the source and matched against the rebuilt list; block histories including a governance change of the active EVM extensions are continued on restarted copies at random boundaries and right after the change.",
    },
    "C15": {
        "id": "C15",
        "lean_modules": ["HaqqModel.Props.C15"],
        "level": "proof",
        "no_model": True,
        "trusted_base": COMMON_TRUST + [
            "modelled, not verified: the SDK bank primitives (send / mint / burn as pointwise balance and supply updates), the distribution FeePool bookkeeping of the redirected burn; NOT modelled: the staking, distribution and governance invariants' internals (validator tokens, shares, unbonding entries, outstanding rewards, deposits) — these are evaluated on the real application by the correspondence run only",
        ],
        "assumptions": [
            "Haqq's keepers move coins only through the bank-keeper methods listed by the regenerated fact bankMethodsUsedByHaqq (a type-based sweep with go/packages); a raw store write to the bank module from elsewhere would not be seen by the fact",
        ],
        "level_text": "Partial. Machine-checked (Lean 4): every history of bank primitives — mint, burn, Haqq's redirected burn, every kind of send, and the EVM keeper's SetBalance — preserves sum of balances = supply, and the redirected burn preserves the distribution module's can-pay inequality; kernel-checked over regenerated facts: the bank-keeper methods Haqq's own code calls are reads, those primitives, or metadata. Evaluated, not proved: after every block of generated histories every invariant registered with the crisis keeper is run on the committed state of the real application.",
        "level_note": "Partial: Haqq's coin movements are proved to keep the bank invariant; the SDK's staking/distribution/gov invariants are checked at run time on generated histories, not modelled. Trusted: Lean kernel; extractor; harness.",
        "technique": "Lean 4 invariant proof over bank primitives + kernel-checked regenerated fact (typed sweep of bank-keeper calls) + all crisis invariants evaluated after every block of generated histories",
        "explanation": "Supply invariant proved for all histories of primitives; the primitive set tied to the source by a typed sweep; histories with staking, precompile and puppet-contract transactions, DAO funding, governance and the per-block coinomics mint evaluated against every registered invariant after each block.",
    },
    "C19": {
        "id": "C19",
        "lean_modules": ["HaqqModel.Props.C19"],
        "level": "proof",
        "no_model": True,
        "trusted_base": COMMON_TRUST + [
            "modelled, not verified: a module's genesis as a family of fields copied by export and written by import; what happens inside a field (lists of accounts, token pairs, denominations, balances) and the SDK modules' own genesis code are covered by the export/import/export differential run only",
        ],
        "assumptions": [
            "the compared document sections are those of Haqq's modules and of auth and bank (accounts incl. vesting accounts, balances, supply); staking, distribution, gov, slashing, ibc sections are the SDK's and are not compared",
            "the fresh application is initialised with the same consensus parameters and the exported height",
        ],
        "level_text": "Machine-checked (Lean 4): for a module whose every genesis field is exported and imported, init(export s) = s and a second export is identical, for every state; a field exported but not imported breaks it (counterexample = the repaired coinomics defect); kernel-checked over facts regenerated from the source: all 16 genesis fields of coinomics, evm, feemarket, erc20, liquidvesting, epochs and ucdao are both filled by ExportGenesis and read by InitGenesis, the coinomics timestamp is imported, and the epochs import keeps a running epoch's start height. Tied to the code by a differential run: generated histories, export, InitChain of a fresh application from the export, second export compared path by path, and keeper reads compared on both applications.",
        "level_note": "Trusted: Lean kernel; go/ast extractor for the field facts; the export/import harness. The field-level model is deliberately coarse; per-field content is compared at run time.",
        "technique": "Lean 4 round-trip theorem over regenerated per-field facts + export/import/export differential run with keeper-read comparison",
        "explanation": "Round trip proved for the field model and discharged over regenerated facts; rich states (contracts with code and storage, a liquid denomination with its ERC20 pair, a vesting account mid-schedule, DAO holders of two denominations, minting in progress, delegations, changed EVM parameters) exported, re-imported and compared.",
    },
    "C04": {
        "id": "C04",
        "lean_modules": ["HaqqModel.Props.C04"],
        "level": "proof",
        "trusted_base": COMMON_TRUST + [
            "modelled, not verified: the authz keeper (a live grant per granter/grantee/message type; expiry makes it absent), StakeAuthorization.Accept (allow-list, limit, delete at zero) as implemented in the SDK, the staking message server (its success or failure for the named delegator enters the model as an input obtained by a dry run on a cached context)",
            "the theorems cover the staking family (delegate / undelegate and their approve / increase / decrease / revoke); distribution and ICS-20 methods follow the same identity pattern in the source but are not modelled; the ERC20 precompile's allowances are outside this check",
        ],
        "assumptions": [
            "the caller named in the model is contract.CallerAddress and the signer is tx.origin, as the EVM supplies them",
            "grant expiry is handled by the authz keeper (an expired grant reads as absent)",
        ],
        "level_text": "Machine-checked proofs (Lean 4) over a model of the staking precompile's authority logic: whoever's coins or stake a successful call moves is the signer or the immediate caller; a third account named as delegator is refused; when the caller is not the signer success implies a live grant whose allow-list contains the validator and whose limit covers the amount; a limited grant is reduced by exactly the amount (deleted at zero), an unlimited one is unchanged; a validator outside the allow-list is refused for limited and unlimited grants; and for every sequence of approve / increase / decrease / revoke / spend the amounts spent since the last approval plus the remaining limit equal what was granted (never overspent); a call that fails has executed no message and changed no grant, because the authorization accepts before the message runs — the order is a regenerated fact over the four methods, and a kernel-checked counterexample shows what the older order (Accept after the message, repaired by 5f6ffb7) left behind for a contract that ignores the failure. Tied to the code by an exact differential run of real signed transactions (direct and through a contract) against the compiled model.",
        "level_note": "Trusted: Lean kernel; correspondence harness; authz/staking internals modelled; only the staking family is modelled.",
        "technique": "Lean 4 proofs of the decision logic + running-allowance invariant by induction over op sequences + differential correspondence on real transactions",
        "explanation": "Identity matrix (signer/contract as caller × signer/contract/third party as delegator) × grant states (absent, limited at limit−1/limit/limit+1, unlimited, revoked, validators created after the approval) exercised with real transactions; verdict and resulting grant compared with the model; independent monitors for third-party effects, coverage and exact reduction.",
    },
    "C16": {
        "id": "C16",
        "lean_modules": ["HaqqModel.Props.C16"],
        "level": "proof",
        "no_model": True,
        "trusted_base": COMMON_TRUST + [
            "modelled, not verified: the native message servers of the SDK's staking and distribution modules are a parameter (what the theorem shows is that the owner's precompile call is that native message, not what the native message does); ABI decoding by go-ethereum; ICS-20 transfer needs an IBC channel and is covered by the source facts only, not by the fork run",
        ],
        "assumptions": [
            "the first EVM call to a precompile address creates an (empty) account for that address; the fork run creates these accounts up front on both forks, they are not an effect of the message",
            "gas and fee movements are excluded (the precompile fork runs through EvmKeeper.ApplyMessage without fees)",
        ],
        "level_text": "Machine-checked (Lean 4): in the authority model a call whose caller, signer and delegator coincide consults and changes no grant and succeeds exactly when the native message does (all grant states, all arguments); kernel-checked over facts regenerated from the source: every staking and distribution transaction method decodes its arguments into exactly the pinned native message literal, validates it, and passes it unchanged to the module's own message server, and synchronises the EVM's cached balances with the bank afterwards (C02's conservation theorem then gives the balance side). Tied to the code by a fork differential: the same state forked twice, native message on one fork, precompile call by the owner on the other, success and six stores compared key by key; read-only staking and bank precompile methods compared with the keepers.",
        "level_note": "Trusted: Lean kernel; go/ast extractor; fork harness; the SDK message servers are a parameter of the statement. ICS-20 is covered by source facts only.",
        "technique": "Lean 4 theorem on the owner path of the authority model + kernel-checked regenerated mapping facts + fork differential (native message vs precompile call) with key-by-key store comparison",
        "explanation": "Owner path proved to be the native message; argument mapping and message-server hand-off regenerated from the source and pinned; delegate / undelegate / redelegate / cancelUnbondingDelegation / setWithdrawAddress / withdrawDelegatorRewards run on twin forks of growing states with boundary amounts, unknown validators, blocked and module withdraw addresses, pending rewards; staking and bank precompile queries compared with module answers.",
    },
    "C10": {
        "id": "C10",
        "lean_modules": ["HaqqModel.Props.C10"],
        "level": "proof",
        "trusted_base": COMMON_TRUST + [
            "modelled, not verified: the honest token contract (ERC20MinterBurnerDecimals: transfer / mint / burn as balance arithmetic), the bank keeper's escrow / mint / burn / send, the EVM executing the token; adversarial token contracts are outside the model — their effect on the real keeper is observed by the correspondence run only",
            "partly covered: of the IBC callbacks the receive path (OnRecvPacket) is run directly, on a branch written only on a success acknowledgement as ibc-go core does; the acknowledgement / timeout callbacks are not run (they call the same ConvertCoin the run exercises)",
        ],
        "assumptions": [
            "one denomination / one pair at a time (pairs do not interact)",
            "the module account is not a user: conversions from or to it are refused (it is a blocked address)",
        ],
        "level_text": "Machine-checked proofs (Lean 4) over a model of one token pair with an honest token contract: every history of MsgConvertCoin / MsgConvertERC20 in both ownership modes, ERC20 transfers with the PostTxProcessing hook, holder burns, owner mints, toggles and the bank MsgSend wrapper keeps the backing (in)equation; a coin-origin pair is backed exactly while no holder burns; an accepted conversion moves the same amount on both sides and a refused one changes nothing; a kernel-checked counterexample shows what a forged Transfer log does to an ERC20-origin pair. Tied to the real keepers by an exact differential run through the application's message router and the EVM keeper (hooks included), which also exercises the repository's malicious tokens and a log-forging token.",
        "level_note": "Trusted: Lean kernel; correspondence harness; honest token and bank semantics modelled; adversarial tokens observed, not modelled; of the IBC callbacks only OnRecvPacket is run (as ibc-go core runs it), acknowledgement and timeout callbacks are not.",
        "technique": "Lean 4 invariant proof by induction over op sequences + differential correspondence on the real application + adversarial-token monitors",
        "explanation": "Backing invariant proved for all histories of the honest model; coin-origin and ERC20-origin pairs registered per case on the real application and driven with conversions, hook transfers, burns, mints, toggles and wrapped bank sends, six quantities compared with the model after every op; malicious and log-forging tokens registered and monitored.",
    },
    "C03": {
        "id": "C03",
        "lean_modules": ["HaqqModel.Props.C03"],
        "level": "proof",
        "trusted_base": COMMON_TRUST + [
            "assumed, not modelled: the cryptography — ECDSA signing and recovery on secp256k1, Keccak-256, RLP / protobuf / EIP-712 hashing as collision-free encodings of the signed content; it enters the theorems as the explicit hypothesis Unforgeable (a signature made over one payload does not verify for the same signer over another payload)",
            "modelled, not verified: the auth keeper's sequence per account; that a refused transaction leaves no state (ante handlers run on a cached context)",
        ],
        "assumptions": [
            "the payload over which a signature is made contains every transaction field, the chain id and the nonce / sequence (EIP-155/2930/1559 signing hashes; Cosmos SignDoc; EIP-712 typed data) — the single-field mutation sweep of the correspondence run probes exactly this on the real code",
        ],
        "level_text": "Partial (cryptography assumed explicitly). Machine-checked (Lean 4): an Ethereum-route batch is accepted exactly when its nonces are seq, seq+1, …; an accepted transaction is refused at every later point; over every history of valid, duplicated, out-of-order and batched submissions the nonces executed are exactly consecutive, each once; executing the messages of an accepted transaction — calls and contract creations in any mix — leaves the sequence where the ante handler advanced it (with a kernel-checked counterexample for the code before 37d9750, where a creation moved it back and a later message of the same transaction could be executed twice); the Cosmos / EIP-712 routes accept only the current sequence; under Unforgeable no change of the signed payload is accepted for the original signer, and the payload of each route binds every field of a transaction the route admits (the EIP-712 routes refuse what their typed data cannot carry: timeout height and extension options, and — since the repair — a fee granter; kernel-checked counterexample for the code before); kernel-checked over regenerated facts: the sequence decorator loads the account and compares the nonce for every message unconditionally, the signature decorator uses the chain's signer, refuses unprotected transactions and sets From from the recovered sender. Tied to the code by an exact differential run of real transactions through DeliverTx for all three routes, including every single-field mutation of all Ethereum transaction types with the signature kept.",
        "level_note": "Partial: replay logic proved and tied to the code; binding to content proved under an explicit unforgeability hypothesis and probed field by field on the real ante chains. Trusted: Lean kernel; extractor; harness; go-ethereum / SDK crypto.",
        "technique": "Lean 4 proofs of the sequence state machine (induction over histories) + binding theorem under an explicit unforgeability hypothesis + regenerated decorator-shape facts + differential correspondence on real signed transactions",
        "explanation": "Sequence machine proved; real DeliverTx on the application with batches of 1–3 Ethereum messages (consecutive, duplicated, skipped, reversed nonces), replays, every single-field mutation (12 fields × 3 transaction types) and foreign-chain signatures, Cosmos direct-mode and EIP-712 (both variants) transactions signed with current / future / past sequence and this / another chain id, tampered after signing in six ways, and replays.",
    },
}

# properties not (yet) claimed, each with a reason; entries disappear as checks are built
NOT_APPLICABLE = {}

HOOK_COMMITS = ["e57c3aa"]  # x/evm/statedb/verif_hooks.go: StateDB.VerifDirtyCount (read-only, build tag verif)
