#!/bin/bash
# development helper: runs every check once (tier from $1, default quick) and prints one line per property
cd "$(dirname "$(readlink -f "$0")")"
tier=${1:-quick}; shift
for c in C01 C02 C03 C04 C05 C06 C07 C08 C09 C10 C11 C12 C13 C14 C15 C16 C17 C18 C19 C20; do
  s=$(date +%s); out=$(./check $c --tier $tier 2>&1); rc=$?; e=$(date +%s)
  echo "$c rc=$rc $((e-s))s $(echo "$out" | grep -E '^VIOLATION|corr C' | tr '\n' ' ' | cut -c1-200)"
done
