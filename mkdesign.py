#!/usr/bin/env python3
"""Regenerates §5 of DESIGN.md (between the markers) from props_table.py, seeded/*/meta.json and known_findings.json."""
import json, glob, importlib.util, os
V = os.path.dirname(os.path.abspath(__file__))
spec = importlib.util.spec_from_file_location('pt', os.path.join(V, 'props_table.py'))
pt = importlib.util.module_from_spec(spec); spec.loader.exec_module(pt)
titles = {json.loads(l)['id']: json.loads(l)['title'] for l in open(os.path.join(V, 'properties.jsonl'))}
mut = {}
for d in sorted(glob.glob(os.path.join(V, 'seeded/C*/meta.json'))):
    m = json.load(open(d)); mut.setdefault(m['property'], []).append((d.split('/')[-2], m['caught_by'], m.get('needs_to_manifest', '')))
kf = json.load(open(os.path.join(V, 'known_findings.json')))['findings']
EXTRA = json.load(open(os.path.join(V, 'design_extra.json')))
out = []
for pid in sorted(pt.PROPS):
    p = pt.PROPS[pid]; files, thms, har = EXTRA[pid]
    out.append(f"### {pid} — {titles[pid]}\n")
    out.append(f"*Level claimed:* {p['level_text']}\n")
    out.append(f"*Lean:* {files}. *Theorems:* {thms}\n")
    out.append(f"*Tie to the code:* {har}\n")
    out.append("*Assumptions:* " + " ".join(f"({i+1}) {a}." for i, a in enumerate(p['assumptions'])) + "\n")
    tb = [t for t in p['trusted_base'] if t not in pt.COMMON_TRUST]
    out.append("*Modelled / assumed, not verified:* " + " ".join(tb) + "\n")
    for name, cb, need in mut.get(pid, []):
        out.append(f"*Seeded change `{name}`* (needs: {need}) — {cb}\n")
    for f in [f for f in kf if f['property'] == pid]:
        if f['status'] == 'known':
            out.append(f"*Known finding* `{f['signature']}`: {f['what']}\n")
        else:
            out.append(f"*Repaired* ({f['commit']}) `{f['signature']}`: {f['what']}\n")
    out.append("")
body = "\n".join(out)
p = os.path.join(V, 'DESIGN.md'); s = open(p).read()
B, E = "<!-- BEGIN generated per-property section -->\n", "<!-- END generated per-property section -->\n"
a, b = s.index(B) + len(B), s.index(E)
open(p, 'w').write(s[:a] + body + s[b:])
print("DESIGN.md §5 regenerated:", len(body), "bytes")
